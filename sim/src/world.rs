//! The real side: corgi handles in slots, application of operations, the instrumented custom
//! operations (user closures passed to `Array::op`) and the re-entrancy scripts they run.

use crate::event::{CustomKind, Op, Reent};
use corgi::array::{Array, BackwardOp, ForwardOp};
use corgi::numbers::Float;
use std::cell::{Cell, RefCell};
use std::rc::{Rc, Weak};

pub fn to_float(v: &[f64]) -> Vec<Float> {
    v.iter().map(|x| *x as Float).collect()
}
pub fn to_f64(v: &[Float]) -> Vec<f64> {
    v.iter().map(|x| *x as f64).collect()
}
pub fn bits(v: &[Float]) -> Vec<u64> {
    v.iter().map(|x| (*x as f64).to_bits()).collect()
}
pub fn mk(dims: &[usize], vals: &[f64]) -> Array {
    Array::from((dims.to_vec(), to_float(vals)))
}

/// Reads the tracking flag of a handle through the documented return value of `stop_tracking`.
pub fn read_flag(h: &Array) -> bool {
    let was = h.stop_tracking();
    if was {
        h.start_tracking();
    }
    was
}

#[derive(Clone, Debug)]
pub struct Invocation {
    pub uid: usize,
    pub seq: u64,
    pub seed_dims: Vec<usize>,
    pub seed: Vec<f64>,
    pub tracked: Vec<bool>,
    /// what the closure returned for each operand (None when it returned None)
    pub returned: Vec<Option<Vec<f64>>>,
    /// the operand arrays as the closure saw them (dims, bits) - for C08
    pub children: Vec<(Vec<usize>, Vec<u64>)>,
}

#[derive(Default, Clone, Debug)]
pub struct ReentStats {
    pub fwd_on_children: u64,
    pub read_grad: u64,
    pub clone_drop: u64,
    pub nested_pass: u64,
    pub nested_wrong: u64,
    pub borrow_busy: u64,
    pub debug_format: u64,
}

/// State reachable from inside user closures (through a `Weak`, so that graphs do not keep it alive).
pub struct Shared {
    /// the library's activation closures, created once per world (a program keeps them around)
    pub acts: [corgi::activation::Activation; 3],
    pub slots: RefCell<Vec<Option<Array>>>,
    pub log: RefCell<Vec<Invocation>>,
    pub seq: Cell<u64>,
    pub reent: RefCell<ReentStats>,
    /// user closures a program defines once and passes to every `Array::op` call of that kind: the same
    /// `Rc` objects in many nodes of one graph; node identity and coefficients travel in an extra,
    /// untracked operand (see `custom_op`)
    pub closures: RefCell<std::collections::BTreeMap<String, (ForwardOp, BackwardOp)>>,
}

impl Shared {
    pub fn new() -> Rc<Shared> {
        Rc::new(Shared {
            acts: [corgi::activation::relu(), corgi::activation::sigmoid(), corgi::activation::softmax()],
            slots: RefCell::new(Vec::new()),
            log: RefCell::new(Vec::new()),
            seq: Cell::new(0),
            reent: RefCell::new(ReentStats::default()),
            closures: RefCell::new(std::collections::BTreeMap::new()),
        })
    }
    pub fn tick(&self) -> u64 {
        let s = self.seq.get() + 1;
        self.seq.set(s);
        s
    }
}

fn run_script(sh: &Shared, script: &[Reent], children: &[Array], delta: &Array) {
    for r in script {
        match r {
            Reent::FwdOnChildren => {
                if let Some(c) = children.first() {
                    let t = c + c;
                    let u = &t * delta;
                    drop(u);
                    drop(t);
                    sh.reent.borrow_mut().fwd_on_children += 1;
                }
            }
            Reent::ReadGrad(s) => match sh.slots.try_borrow() {
                Ok(slots) => {
                    if let Some(Some(h)) = slots.get(*s) {
                        let g = h.gradient().clone();
                        drop(g);
                        sh.reent.borrow_mut().read_grad += 1;
                    }
                }
                Err(_) => sh.reent.borrow_mut().borrow_busy += 1,
            },
            Reent::CloneDrop(s) => match sh.slots.try_borrow() {
                Ok(slots) => {
                    if let Some(Some(h)) = slots.get(*s) {
                        let c = h.clone();
                        drop(c);
                        sh.reent.borrow_mut().clone_drop += 1;
                    }
                }
                Err(_) => sh.reent.borrow_mut().borrow_busy += 1,
            },
            Reent::DebugFormat => {
                let mut n = 0usize;
                for c in children {
                    n += format!("{:?}", c).len();
                }
                n += format!("{:?}", delta).len();
                if n > 0 {
                    sh.reent.borrow_mut().debug_format += 1;
                }
            }
            Reent::NestedPass => {
                let x = mk(&[2], &[3.0, -2.0]).tracked();
                let w = mk(&[2], &[5.0, 7.0]).tracked();
                let y = &(&x * &w) + &x;
                let z = &y * &x; // z = x*x*w + x*x ; dz/dx = 2xw + 2x ; dz/dw = x*x
                z.backward(None);
                let gx = x.gradient().clone().map(|g| to_f64(g.values()));
                let gw = w.gradient().clone().map(|g| to_f64(g.values()));
                let ok = gx == Some(vec![36.0, -32.0]) && gw == Some(vec![9.0, 4.0]);
                let mut st = sh.reent.borrow_mut();
                st.nested_pass += 1;
                if !ok {
                    st.nested_wrong += 1;
                }
            }
        }
    }
}

/// Builds the forward and derivative closures of a custom operation. `uid` is the reference node id.
/// `tagged`: the closure objects are shared by every node of this kind and script in the world; the
/// node's identity and coefficients are read from the last operand, an untracked array
/// `[uid, coef...]` the caller appends (hyper-parameters handed over as an operand).
pub fn custom_op(sh: &Rc<Shared>, uid: usize, kind: &CustomKind, coef: &[f64], script: &[Reent], tagged: bool) -> (ForwardOp, BackwardOp) {
    let key = format!("{:?}|{:?}", kind, script);
    if tagged {
        if let Some((f, b)) = sh.closures.borrow().get(&key) {
            return (f.clone(), b.clone());
        }
    }
    let kind_f = kind.clone();
    let coef_fixed: Vec<f64> = coef.to_vec();
    let fwd: ForwardOp = Rc::new(move |x: &[&Array]| {
        let (x, coef_f): (&[&Array], Vec<Float>) = if tagged {
            let t = x[x.len() - 1].values();
            (&x[..x.len() - 1], t[1..].to_vec())
        } else {
            (x, coef_fixed.iter().map(|c| *c as Float).collect())
        };
        if kind_f == CustomKind::Prod2Crate {
            // a forward closure written with the library's own (tracked) arithmetic
            return x[0] * x[1];
        }
        let n = x[0].values().len();
        let vals: Vec<Float> = match kind_f {
            CustomKind::Lin => (0..n)
                .map(|i| {
                    let mut s: Float = 0.0;
                    for (j, a) in x.iter().enumerate() {
                        s += a.values()[i] * coef_f[j];
                    }
                    s
                })
                .collect(),
            CustomKind::Prod2 | CustomKind::Prod2Crate | CustomKind::CrateFwdNoBwd => (0..n).map(|i| x[0].values()[i] * x[1].values()[i]).collect(),
            CustomKind::NestedSq => x[0].values().iter().map(|v| v * v).collect(),
        };
        Array::from((x[0].dimensions().to_vec(), vals))
    });

    let weak: Weak<Shared> = Rc::downgrade(sh);
    let kind_b = kind.clone();
    let coef_b: Vec<f64> = coef.to_vec();
    let script_b: Vec<Reent> = script.to_vec();
    let bwd: BackwardOp = Rc::new(move |children: &[Array], tracked: &[bool], delta: &Array| {
        let (uid, children, tracked, coef_b): (usize, &[Array], &[bool], Vec<Float>) = if tagged {
            let n = children.len() - 1;
            let t = children[n].values();
            (t[0] as usize, &children[..n], &tracked[..n], t[1..].to_vec())
        } else {
            (uid, children, tracked, coef_b.iter().map(|c| *c as Float).collect())
        };
        let sh = weak.upgrade();
        let seq = sh.as_ref().map(|s| s.tick()).unwrap_or(0);
        if let Some(s) = &sh {
            run_script(s, &script_b, children, delta);
        }
        let dims = delta.dimensions().to_vec();
        let dv = delta.values();
        let ret: Vec<Option<Array>> = match kind_b {
            CustomKind::Lin => (0..children.len())
                .map(|i| {
                    if tracked[i] {
                        let k = coef_b[i];
                        Some(Array::from((dims.clone(), dv.iter().map(|d| d * k).collect::<Vec<Float>>())))
                    } else {
                        None
                    }
                })
                .collect(),
            CustomKind::Prod2 | CustomKind::Prod2Crate | CustomKind::CrateFwdNoBwd => (0..2)
                .map(|i| {
                    if tracked[i] {
                        let o = children[1 - i].values();
                        Some(Array::from((dims.clone(), dv.iter().zip(o).map(|(d, v)| d * v).collect::<Vec<Float>>())))
                    } else {
                        None
                    }
                })
                .collect(),
            CustomKind::NestedSq => {
                if tracked[0] {
                    // derivative obtained by automatic differentiation of a fresh, disjoint graph
                    let l = Array::from((children[0].dimensions().to_vec(), children[0].values().to_vec())).tracked();
                    let y = &l * &l;
                    y.backward(Some(Array::from((dims.clone(), dv.to_vec()))));
                    let g = l.gradient().clone();
                    vec![g]
                } else {
                    vec![None]
                }
            }
        };
        if let Some(s) = &sh {
            if s.log.borrow().len() > 2_000_000 {
                panic!("corgi_verif: step budget (user closure log) exceeded");
            }
            s.log.borrow_mut().push(Invocation {
                uid,
                seq,
                seed_dims: dims,
                seed: to_f64(dv),
                tracked: tracked.to_vec(),
                returned: ret.iter().map(|r| r.as_ref().map(|a| to_f64(a.values()))).collect(),
                children: children.iter().map(|c| (c.dimensions().to_vec(), bits(c.values()))).collect(),
            });
        }
        let mut ret = ret;
        if tagged {
            ret.push(None);
        }
        ret
    });
    if tagged {
        sh.closures.borrow_mut().insert(key, (fwd.clone(), bwd.clone()));
    }
    (fwd, bwd)
}

/// Applies an operation of the vocabulary to real handles. May panic (caught by the caller).
/// `salt`: the destination slot, which (unlike `uid`) stays the same when events are removed from a trace,
/// so that call-shape alternations keyed on it survive minimisation.
pub fn apply_op(sh: &Rc<Shared>, uid: usize, salt: usize, op: &Op, a: &[&Array], any_tracked: bool) -> Array {
    match op {
        Op::Add => a[0] + a[1],
        Op::Sub => a[0] - a[1],
        Op::Mul => a[0] * a[1],
        Op::Div => a[0] / a[1],
        Op::Axpy(alpha) => Array::axpy(*alpha as Float, a[0], a[1]),
        Op::Neg => -a[0],
        Op::Scale(k) => a[0] * (*k as Float),
        Op::Powf(p) => a[0].powf(*p as Float),
        Op::Ln => a[0].ln(),
        Op::Exp => a[0].exp(),
        Op::Recip => a[0].reciprocal(),
        Op::Relu => a[0].relu(),
        Op::Sigmoid => a[0].sigmoid(),
        Op::Softmax => a[0].softmax(),
        Op::Sum(k) => a[0].sum(*k),
        Op::Reshape(d) => a[0].reshape(d.clone()),
        Op::Matmul { ta, tb } => Array::matmul((a[0], *ta), (a[1], *tb), a.get(2).copied()),
        Op::Conv { sr, sc } => a[0].conv(a[1], (*sr, *sc)),
        Op::Activation { act, detach } => {
            // an untracked operand is handed over as a fresh reshaped view every other time (a handle
            // nobody else holds, on storage somebody else does: C08 against "unshared, so reusable")
            let c = if !any_tracked && salt % 2 == 1 { a[0].reshape(a[0].dimensions().to_vec()) } else { a[0].clone() };
            let c = if *detach { c.untracked() } else { c };
            match act {
                crate::event::Act::None => c,
                crate::event::Act::Relu => (sh.acts[0])(c),
                crate::event::Act::Sigmoid => (sh.acts[1])(c),
                crate::event::Act::Softmax => (sh.acts[2])(c),
            }
        }
        Op::Stack { views } => {
            let parts: Vec<Array> = a.iter().map(|x| if *views { x.reshape(x.dimensions().to_vec()) } else { (*x).clone() }).collect();
            Array::from(parts)
        }
        Op::Cost(kind) => match kind {
            crate::event::CostKind::Mse => (corgi::cost::mse())(a[0], a[1]),
            crate::event::CostKind::CrossEntropy => (corgi::cost::cross_entropy())(a[0], a[1]),
        },
        Op::Custom { kind: CustomKind::CrateFwdNoBwd, .. } => {
            let f: ForwardOp = Rc::new(|x: &[&Array]| x[0] * x[1]);
            Array::op(a, f, None)
        }
        Op::Custom { kind, coef, script } => {
            // two nodes out of three use closure objects defined once for the whole program
            let tagged = (salt + coef.len()) % 3 != 0;
            let (f, b) = custom_op(sh, uid, kind, coef, script, tagged);
            // the user always supplies a derivative closure, as in the documented example; whether a graph
            // is recorded for untracked operands is the library's decision (C09)
            let _ = any_tracked;
            if tagged {
                let mut tv: Vec<Float> = vec![uid as Float];
                tv.extend(coef.iter().map(|c| *c as Float));
                let tag = Array::from((vec![tv.len()], tv));
                let mut v: Vec<&Array> = a.to_vec();
                v.push(&tag);
                Array::op(&v, f, Some(b))
            } else {
                Array::op(a, f, Some(b))
            }
        }
    }
}
