//! The simulator's own record of what every handle *is*: an arena DAG of reference nodes
//! (independent of corgi), per-handle flag state, alias sets, and the adjoint computation
//! (forward-mode over the reference definitions, restricted to tracked edges).

use crate::event::Op;
use crate::refmodel::{eval, numel, Dual, Scalar};
use std::collections::{BTreeMap, BTreeSet};

#[derive(Clone, Debug)]
pub struct Edge {
    pub node: usize,
    pub tracked: bool,
    pub keep: bool,
    /// `.tracked()` had been applied explicitly to the operand handle
    pub explicit: bool,
}

#[derive(Clone, Debug)]
pub struct Node {
    pub op: Option<Op>,
    /// operands as used (flags captured at the time of use)
    pub edges: Vec<Edge>,
    pub has_graph: bool,
    pub dims: Vec<usize>,
    pub vals: Vec<f64>,
    pub alias: usize,
    /// a parameter produced by an optimizer update, a leaf, or an operation result
    pub origin: &'static str,
}

#[derive(Clone, Copy, Debug, PartialEq)]
pub enum Explicit {
    No,
    Tracked,
    Untracked,
}

#[derive(Clone, Debug)]
pub struct HInfo {
    pub node: usize,
    pub tracked: bool,
    pub keep: bool,
    pub explicit: Explicit,
}

#[derive(Default)]
pub struct Graph {
    pub nodes: Vec<Node>,
    pub next_alias: usize,
}

pub struct Adjoint {
    pub a: Vec<f64>,
    pub mag: Vec<f64>,
}

impl Graph {
    pub fn add(&mut self, n: Node) -> usize {
        self.nodes.push(n);
        self.nodes.len() - 1
    }
    pub fn fresh_alias(&mut self) -> usize {
        self.next_alias += 1;
        self.next_alias
    }

    /// Nodes reachable from `root` through tracked edges of nodes that have a graph (root included).
    pub fn reach(&self, root: usize) -> BTreeSet<usize> {
        let mut r = BTreeSet::new();
        let mut stack = vec![root];
        while let Some(n) = stack.pop() {
            if !r.insert(n) {
                continue;
            }
            let nd = &self.nodes[n];
            if nd.has_graph {
                for e in &nd.edges {
                    if e.tracked {
                        stack.push(e.node);
                    }
                }
            }
        }
        r
    }

    /// All dataflow ancestors (tracked or not), the node itself excluded.
    pub fn ancestry(&self, n: usize) -> BTreeSet<usize> {
        let mut r = BTreeSet::new();
        let mut stack: Vec<usize> = self.nodes[n].edges.iter().map(|e| e.node).collect();
        while let Some(m) = stack.pop() {
            if r.insert(m) {
                stack.extend(self.nodes[m].edges.iter().map(|e| e.node));
            }
        }
        r
    }

    /// Nodes kept alive by the given handle nodes: closure through the children of nodes with a graph.
    pub fn alive(&self, handles: &[usize]) -> BTreeSet<usize> {
        let mut r = BTreeSet::new();
        let mut stack: Vec<usize> = handles.to_vec();
        while let Some(n) = stack.pop() {
            if !r.insert(n) {
                continue;
            }
            let nd = &self.nodes[n];
            if nd.has_graph {
                stack.extend(nd.edges.iter().map(|e| e.node));
            }
        }
        r
    }

    /// Number of tracked in-graph consumers (edges) of each node of `r`.
    pub fn fan_in(&self, r: &BTreeSet<usize>) -> BTreeMap<usize, usize> {
        let mut m = BTreeMap::new();
        for n in r {
            let nd = &self.nodes[*n];
            if nd.has_graph {
                for e in &nd.edges {
                    if e.tracked {
                        *m.entry(e.node).or_insert(0) += 1;
                    }
                }
            }
        }
        m
    }

    /// Adjoints for large graphs (deep chains): local Jacobian-transpose products are still obtained
    /// by forward-mode (dual-number) evaluation of the reference definition of each single
    /// operation, but they are accumulated edge by edge in reverse topological order, which is
    /// linear in the graph size. Cross-checked against `adjoints_pure` on small graphs.
    pub fn adjoints_edgewise(&self, root: usize, seed: &[f64]) -> BTreeMap<usize, Adjoint> {
        let r = self.reach(root);
        let mut out: BTreeMap<usize, Adjoint> = BTreeMap::new();
        for n in &r {
            let ne = numel(&self.nodes[*n].dims);
            out.insert(*n, Adjoint { a: vec![0.0; ne], mag: vec![0.0; ne] });
        }
        out.insert(root, Adjoint { a: seed.to_vec(), mag: seed.iter().map(|x| x.abs()).collect() });
        for &n in r.iter().rev() {
            let nd = &self.nodes[n];
            if !nd.has_graph {
                continue;
            }
            let (an, mn) = {
                let x = &out[&n];
                (x.a.clone(), x.mag.clone())
            };
            let consts: Vec<Vec<Dual>> = nd.edges.iter().map(|ed| self.nodes[ed.node].vals.iter().map(|v| Dual::c(*v)).collect()).collect();
            for (k, ed) in nd.edges.iter().enumerate() {
                if !ed.tracked {
                    continue;
                }
                let ce = self.nodes[ed.node].vals.len();
                for e in 0..ce {
                    let mut mine = consts[k].clone();
                    mine[e] = Dual::var(self.nodes[ed.node].vals[e]);
                    let args: Vec<(&[usize], &[Dual])> = nd.edges.iter().enumerate().map(|(j, ed2)| (&self.nodes[ed2.node].dims[..], if j == k { &mine[..] } else { &consts[j][..] })).collect();
                    let res = eval::<Dual>(nd.op.as_ref().unwrap(), &args);
                    let mut s = 0.0;
                    let mut sm = 0.0;
                    for (i, x) in res.iter().enumerate() {
                        s += an[i] * x.d;
                        sm += mn[i] * x.a;
                    }
                    let t = out.get_mut(&ed.node).unwrap();
                    t.a[e] += s;
                    t.mag[e] += sm;
                }
            }
        }
        out
    }

    pub fn adjoints(&self, root: usize, seed: &[f64]) -> BTreeMap<usize, Adjoint> {
        let r = self.reach(root);
        if r.len() > 40 {
            self.adjoints_edgewise(root, seed)
        } else {
            self.adjoints_pure(root, seed)
        }
    }

    /// Seed-weighted adjoints of every node reachable from `root`, by forward-mode perturbation
    /// of each element of each reachable node, with tangents flowing through tracked edges only.
    pub fn adjoints_pure(&self, root: usize, seed: &[f64]) -> BTreeMap<usize, Adjoint> {
        let r = self.reach(root);
        let order: Vec<usize> = r.iter().copied().collect(); // ids increase with creation: topological
        let mut out = BTreeMap::new();
        for &m in &order {
            let md = &self.nodes[m];
            let ne = numel(&md.dims);
            if m == root {
                out.insert(m, Adjoint { a: seed.to_vec(), mag: seed.iter().map(|x| x.abs()).collect() });
                continue;
            }
            let mut a = vec![0.0; ne];
            let mut mag = vec![0.0; ne];
            // nodes downstream of m inside r
            let down: Vec<usize> = order.iter().copied().filter(|n| *n > m).collect();
            for e in 0..ne {
                let mut tang: BTreeMap<usize, Vec<Dual>> = BTreeMap::new();
                let mut mv: Vec<Dual> = md.vals.iter().map(|v| Dual::c(*v)).collect();
                mv[e] = Dual::var(md.vals[e]);
                tang.insert(m, mv);
                for &n in &down {
                    let nd = &self.nodes[n];
                    if !nd.has_graph {
                        continue;
                    }
                    let touched = nd.edges.iter().any(|ed| ed.tracked && tang.contains_key(&ed.node));
                    if !touched {
                        continue;
                    }
                    let consts: Vec<Vec<Dual>> = nd
                        .edges
                        .iter()
                        .map(|ed| {
                            if ed.tracked {
                                if let Some(t) = tang.get(&ed.node) {
                                    return t.clone();
                                }
                            }
                            self.nodes[ed.node].vals.iter().map(|v| Dual::c(*v)).collect()
                        })
                        .collect();
                    let args: Vec<(&[usize], &[Dual])> =
                        nd.edges.iter().zip(&consts).map(|(ed, c)| (&self.nodes[ed.node].dims[..], &c[..])).collect();
                    let res = eval::<Dual>(nd.op.as_ref().unwrap(), &args);
                    tang.insert(n, res);
                }
                if let Some(rt) = tang.get(&root) {
                    let mut s = 0.0;
                    let mut sm = 0.0;
                    for (x, w) in rt.iter().zip(seed) {
                        s += w * x.d;
                        sm += w.abs() * x.a;
                    }
                    a[e] = s;
                    mag[e] = sm;
                }
            }
            out.insert(m, Adjoint { a, mag });
        }
        out
    }
}
