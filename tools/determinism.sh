#!/bin/sh
# Determinism self-test: for each property profile, N runs executed (a) twice in separate processes,
# (b) at worker counts 1, 4 and 16; the batch digest (over every run's canonical log) and the
# counts must be identical. usage: tools/determinism.sh [N]   (default 3000)
N=${1:-3000}
BIN=/verif/sim/target/release/corgisim
BIN32=/verif/sim/target-f32/release/corgisim
fail=0
for b in $BIN $BIN32; do
  for p in C01 C03 C08 C09 C10 C11 C12 C13 C14 C17 C18; do
    ref=$(VERIF_WORKERS=16 $b digests $p $N)
    for w in 16 4 1; do
      got=$(VERIF_WORKERS=$w $b digests $p $N)
      if [ "$got" != "$ref" ]; then echo "NONDETERMINISTIC $b $p workers=$w"; echo " ref: $ref"; echo " got: $got"; fail=1; fi
    done
    echo "ok $(basename $(dirname $(dirname $b))) $ref"
  done
done
exit $fail
