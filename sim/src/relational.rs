//! Relational oracles: the real engine against itself under a different schedule. A fork is a
//! replay of (a transformation of) the explicit trace in a fresh world - corgi has no deep copy.

use crate::event::*;
use crate::rng::Rng;
use crate::runner::{run_trace, RunOut};
use crate::sim::{eps, tol_k, Obs, ObsRec, Regime, Sim, Violation};
use corgi::numbers::Float;
use std::collections::{BTreeMap, BTreeSet};

fn v(prop: &'static str, monitor: &'static str, class: String, event: usize, detail: String) -> Violation {
    Violation { prop, monitor, class, event, detail, extra: serde_json::Value::Null }
}

/// `a (+) b` in the build's float width (what the engine's accumulation does).
fn add_float(a: &Obs, b: &Obs) -> Option<Obs> {
    if a.dims != b.dims {
        return None;
    }
    let bits = a
        .vals()
        .iter()
        .zip(b.vals())
        .map(|(x, y)| (((*x as Float) + (y as Float)) as f64).to_bits())
        .collect();
    Some(Obs { dims: a.dims.clone(), bits })
}

fn recs_at<'a>(log: &'a [ObsRec], event: usize, kind: &str) -> BTreeMap<usize, &'a Option<Obs>> {
    log.iter().filter(|r| r.event == event && r.kind == kind).map(|r| (r.slot, &r.obs)).collect()
}

fn has_update(trace: &[Ev]) -> bool {
    trace.iter().any(|e| matches!(e, Ev::Update { .. } | Ev::Upd | Ev::TrainOpen { .. }))
}

// -------------------------------------------------------------------------------------------- C10

/// For every executed pass: its deposit in the full history equals its deposit when it runs alone
/// (construction events only; no other pass, no clear) - bitwise, in the build's float width.
pub fn c10_solo(out: &RunOut) -> (Vec<Violation>, u64, u64) {
    let mut viols = Vec::new();
    let mut forks = 0u64;
    if has_update(&out.trace) || out.sim.passes.len() < 2 {
        return (viols, 0, 0);
    }
    let mut compared = 0u64;
    for p in &out.sim.passes {
        let e = p.event;
        if out.sim.dead && e + 1 == out.sim.event_index {
            continue; // the pass that panicked is reported by the absolute monitors
        }
        let mut evs: Vec<Ev> = out.trace[..=e].to_vec();
        for (i, ev) in evs.iter_mut().enumerate() {
            if i < e && matches!(ev, Ev::Pass { .. } | Ev::GradClear { .. }) {
                *ev = Ev::Nop;
            }
        }
        let fork = run_trace(&evs, out.regime, false);
        forks += 1;
        if fork.dead {
            viols.push(v("C10", "solo_pass_panicked", "pass alone panics".into(), e, format!("the pass of event {} panics when run alone but not in the full history: {}", e, crate::last_panic())));
            continue;
        }
        let before = recs_at(&out.sim.obs_log, e, "pass_before");
        let after = recs_at(&out.sim.obs_log, e, "pass_after");
        let solo = recs_at(&fork.obs_log, e, "pass_after");
        let solo_before = recs_at(&fork.obs_log, e, "pass_before");
        for (slot, aft) in &after {
            let bef = match before.get(slot) {
                Some(b) => *b,
                None => continue,
            };
            let so = match solo.get(slot) {
                Some(s) => *s,
                None => continue,
            };
            if let Some(Some(_)) = solo_before.get(slot) {
                continue; // cannot happen without other passes; be conservative
            }
            let want: Option<Obs> = match (bef, so) {
                (None, None) => None,
                (Some(b), None) => Some(b.clone()),
                (None, Some(s)) => Some(s.clone()),
                (Some(b), Some(s)) => match add_float(b, s) {
                    Some(w) => Some(w),
                    None => continue, // shapes differ: C03's business
                },
            };
            compared += 1;
            // integer data: exact; otherwise within a few ulps of the terms (an implementation is free
            // to associate the accumulation differently)
            let same = match (&want, aft) {
                (None, None) => true,
                (Some(w), Some(a)) => {
                    w.dims == a.dims
                        && if out.regime == Regime::Int {
                            w.vals() == a.vals()
                        } else {
                            let bv = bef.as_ref().map(|o| o.vals()).unwrap_or_default();
                            let sv = so.as_ref().map(|o| o.vals()).unwrap_or_default();
                            w.vals().iter().zip(a.vals()).enumerate().all(|(i, (x, y))| {
                                let scale = bv.get(i).map(|v| v.abs()).unwrap_or(0.0) + sv.get(i).map(|v| v.abs()).unwrap_or(0.0);
                                (x - y).abs() <= 8.0 * eps() * scale
                            })
                        }
                }
                _ => false,
            };
            if !same {
                viols.push(v(
                    "C10",
                    "solo_deposit",
                    format!("pass {} of {} on a graph {} earlier passes", out.sim.passes.iter().position(|q| q.event == e).unwrap() + 1, out.sim.passes.len(), if p.overlapped_earlier { "overlapping" } else { "disjoint from" }),
                    e,
                    format!("slot s{}: gradient after the pass is {:?}, but before-the-pass {:?} plus what the same pass deposits alone {:?} is {:?}", slot, aft.as_ref().map(|o| o.vals()), bef.as_ref().map(|o| o.vals()), so.as_ref().map(|o| o.vals()), want.as_ref().map(|o| o.vals())),
                ));
                break;
            }
        }
    }
    (viols, forks, compared)
}

/// Judge for replay/minimisation of C10 solo violations.
pub fn c10_judge(events: &[Ev], regime: Regime) -> Vec<Violation> {
    let sim = run_trace(events, regime, true);
    let out = RunOut { trace: events.to_vec(), actors: vec![], digest: 0, regime, sim };
    let mut vs = out.sim.violations.clone();
    vs.extend(c10_solo(&out).0);
    vs
}

// -------------------------------------------------------------------------------------------- C12

#[derive(Clone, Debug, serde::Serialize, serde::Deserialize, PartialEq)]
pub enum Perturb {
    /// operand `k` of the build at event `j` is replaced by a fresh clone (dropped right after)
    CloneOperand { j: usize, k: usize },
    /// the handle in `slot` is dropped right after event `j` (its last named use)
    DropAfter { j: usize, slot: Slot },
    /// the build at event `j` re-binds the variable of operand `k` instead of a new variable
    Rebind { j: usize, k: usize },
    /// the pass at event `j` starts from a clone of the root
    PassFromClone { j: usize },
    /// the gradient read at event `j` goes through another clone
    ReadThroughClone { j: usize },
    /// the handle in `slot` is replaced by a clone of itself right after event `j`
    RebindSelf { j: usize, slot: Slot },
    /// right after the pass at event `j` the program fetches the gradient of `slot` and keeps the clone
    KeepGradientClone { j: usize, slot: Slot },
}

fn slots_named(e: &Ev) -> Vec<Slot> {
    match e {
        Ev::Leaf { dst, .. } => vec![*dst],
        Ev::Build { dst, args, .. } => {
            let mut v = args.clone();
            v.push(*dst);
            v
        }
        Ev::CondBuild { cond, dst, then, otherwise, .. } => {
            let mut v = vec![*cond, *dst];
            v.extend(&then.1);
            v.extend(&otherwise.1);
            v
        }
        Ev::Pass { root, seed: Seed::FromSlot(s), .. } => vec![*root, *s],
        Ev::Pass { root, .. } => vec![*root],
        Ev::GradRead { slot, .. } | Ev::GradClear { slot, .. } | Ev::GradSet { slot, .. } | Ev::DropSlot { slot } | Ev::Rebind { slot } | Ev::Flag { slot, .. } | Ev::Retire { slot } => vec![*slot],
        Ev::CloneTo { src, dst } | Ev::FlagClone { src, dst, .. } => vec![*src, *dst],
        Ev::Swap { a, b } => vec![*a, *b],
        Ev::Update { slots, .. } => slots.clone(),
        Ev::Refuse(Refuse::Elementwise(a, b)) | Ev::Refuse(Refuse::MatmulInner(a, b)) => vec![*a, *b],
        Ev::Refuse(Refuse::ReshapeCount(a, _)) => vec![*a],
        Ev::TakeParams { dst } => dst.clone(),
        _ => vec![],
    }
}

fn rename(e: &Ev, from: Slot, to: Slot) -> Ev {
    let r = |s: &Slot| if *s == from { to } else { *s };
    let rv = |v: &Vec<Slot>| v.iter().map(|s| r(s)).collect::<Vec<_>>();
    match e {
        Ev::Leaf { dst, dims, vals, mode } => Ev::Leaf { dst: r(dst), dims: dims.clone(), vals: vals.clone(), mode: *mode },
        Ev::Build { dst, op, args } => Ev::Build { dst: r(dst), op: op.clone(), args: rv(args) },
        Ev::CondBuild { cond, thresh, dst, then, otherwise } => Ev::CondBuild { cond: r(cond), thresh: *thresh, dst: r(dst), then: (then.0.clone(), rv(&then.1)), otherwise: (otherwise.0.clone(), rv(&otherwise.1)) },
        Ev::Pass { root, seed, via_clone } => Ev::Pass { root: r(root), seed: match seed { Seed::FromSlot(s) => Seed::FromSlot(r(s)), other => other.clone() }, via_clone: *via_clone },
        Ev::GradRead { slot, via_clone } => Ev::GradRead { slot: r(slot), via_clone: *via_clone },
        Ev::GradClear { slot, how } => Ev::GradClear { slot: r(slot), how: *how },
        Ev::GradSet { slot, vals, flat } => Ev::GradSet { slot: r(slot), vals: vals.clone(), flat: *flat },
        Ev::Flag { slot, f } => Ev::Flag { slot: r(slot), f: *f },
        Ev::FlagClone { src, dst, f } => Ev::FlagClone { src: r(src), dst: r(dst), f: *f },
        Ev::CloneTo { src, dst } => Ev::CloneTo { src: r(src), dst: r(dst) },
        Ev::Retire { slot } => Ev::Retire { slot: r(slot) },
        Ev::DropSlot { slot } => Ev::DropSlot { slot: r(slot) },
        Ev::Rebind { slot } => Ev::Rebind { slot: r(slot) },
        Ev::Swap { a, b } => Ev::Swap { a: r(a), b: r(b) },
        Ev::Update { slots, lr, opt, keep_stale } => Ev::Update { slots: rv(slots), lr: *lr, opt: *opt, keep_stale: *keep_stale },
        Ev::Refuse(Refuse::Elementwise(a, b)) => Ev::Refuse(Refuse::Elementwise(r(a), r(b))),
        Ev::Refuse(Refuse::MatmulInner(a, b)) => Ev::Refuse(Refuse::MatmulInner(r(a), r(b))),
        Ev::Refuse(Refuse::ReshapeCount(a, d)) => Ev::Refuse(Refuse::ReshapeCount(r(a), d.clone())),
        other => other.clone(),
    }
}

/// All single perturbations applicable to a base history.
pub fn perturbations(trace: &[Ev], done: &[bool]) -> Vec<Perturb> {
    let mut ps = Vec::new();
    let max_slot = trace.iter().flat_map(slots_named).max().unwrap_or(0);
    let _ = max_slot;
    // last named use of every slot
    let mut last: BTreeMap<Slot, usize> = BTreeMap::new();
    let mut scripted: BTreeSet<Slot> = BTreeSet::new();
    for (i, e) in trace.iter().enumerate() {
        for s in slots_named(e) {
            last.insert(s, i);
        }
        if let Ev::Build { op: Op::Custom { script, .. }, .. } = e {
            for r in script {
                if let Reent::ReadGrad(x) | Reent::CloneDrop(x) = r {
                    scripted.insert(*x);
                }
            }
        }
    }
    for (j, e) in trace.iter().enumerate() {
        if !done[j] {
            continue;
        }
        match e {
            Ev::Build { dst, args, .. } => {
                for k in 0..args.len() {
                    ps.push(Perturb::CloneOperand { j, k });
                    // re-bind: only if the operand's variable is not named later and the new variable is a fresh one
                    let a = args[k];
                    if last[&a] == j && !args.contains(dst) && !scripted.contains(&a) && args.iter().filter(|x| **x == a).count() == 1 && !trace[..j].iter().any(|e| slots_named(e).contains(dst)) {
                        ps.push(Perturb::Rebind { j, k });
                    }
                }
            }
            Ev::Pass { via_clone: false, root, .. } => {
                ps.push(Perturb::PassFromClone { j });
                ps.push(Perturb::KeepGradientClone { j, slot: *root });
                for (s, l) in &last {
                    if *l > j && *s != *root && (*s + j) % 3 == 0 {
                        ps.push(Perturb::KeepGradientClone { j, slot: *s });
                    }
                }
            }
            Ev::Pass { via_clone: true, root, .. } => ps.push(Perturb::KeepGradientClone { j, slot: *root }),
            Ev::GradRead { via_clone: false, .. } => ps.push(Perturb::ReadThroughClone { j }),
            _ => {}
        }
    }
    for (s, j) in &last {
        if !scripted.contains(s) && done[*j] && *j + 1 < trace.len() {
            ps.push(Perturb::DropAfter { j: *j, slot: *s });
        }
    }
    // a handle replaced by a clone of itself at an arbitrary instant while still in use
    for (s, j) in &last {
        let first = trace.iter().position(|e| slots_named(e).contains(s)).unwrap();
        if *j > first + 1 && !scripted.contains(s) {
            ps.push(Perturb::RebindSelf { j: first + (*j - first) / 2, slot: *s });
        }
    }
    ps
}

/// Applies perturbations; returns the perturbed trace as (original event index, event) and the
/// slot renaming (perturbed slot name -> base slot name, valid for events after `since`).
pub fn apply(trace: &[Ev], ps: &[Perturb]) -> (Vec<(usize, Ev)>, Vec<(usize, Slot, Slot)>) {
    let mut tmp = trace.iter().flat_map(slots_named).max().unwrap_or(0) + 1000;
    let mut out: Vec<(usize, Ev)> = Vec::new();
    let mut renames: Vec<(usize, Slot, Slot)> = Vec::new(); // (since event j, base name, perturbed name)
    for (i, e0) in trace.iter().enumerate() {
        // apply active renames to this event (events strictly after the rebind)
        let mut e = e0.clone();
        for (since, base, pert) in &renames {
            if i > *since {
                e = rename(&e, *base, *pert);
            }
        }
        let mut pre: Vec<Ev> = Vec::new();
        let mut post: Vec<Ev> = Vec::new();
        for p in ps {
            match p {
                Perturb::CloneOperand { j, k } if *j == i => {
                    if let Ev::Build { dst, op, args } = &e {
                        let t = tmp;
                        tmp += 1;
                        pre.push(Ev::CloneTo { src: args[*k], dst: t });
                        let mut a = args.clone();
                        a[*k] = t;
                        e = Ev::Build { dst: *dst, op: op.clone(), args: a };
                        post.push(Ev::DropSlot { slot: t });
                    }
                }
                Perturb::Rebind { j, k } if *j == i => {
                    if let Ev::Build { dst, op, args } = &e {
                        let target = args[*k];
                        renames.push((i, *dst, target));
                        e = Ev::Build { dst: target, op: op.clone(), args: args.clone() };
                    }
                }
                Perturb::PassFromClone { j } if *j == i => {
                    if let Ev::Pass { root, seed, .. } = &e {
                        e = Ev::Pass { root: *root, seed: seed.clone(), via_clone: true };
                    }
                }
                Perturb::ReadThroughClone { j } if *j == i => {
                    if let Ev::GradRead { slot, .. } = &e {
                        e = Ev::GradRead { slot: *slot, via_clone: true };
                    }
                }
                Perturb::DropAfter { j, slot } if *j == i => post.push(Ev::DropSlot { slot: *slot }),
                Perturb::RebindSelf { j, slot } if *j == i => post.push(Ev::Rebind { slot: *slot }),
                Perturb::KeepGradientClone { j, slot } if *j == i => post.push(Ev::GradRead { slot: *slot, via_clone: false }),
                _ => {}
            }
        }
        for x in pre {
            out.push((usize::MAX, x));
        }
        out.push((i, e));
        for x in post {
            out.push((usize::MAX, x));
        }
    }
    (out, renames)
}

pub fn final_obs(sim: &Sim) -> Vec<ObsRec> {
    let mut v = Vec::new();
    let slots = sim.sh.slots.borrow();
    for s in sim.live_slots() {
        let h = slots[s].as_ref().unwrap();
        v.push(ObsRec { event: usize::MAX - 1, kind: "final_value", slot: s, obs: Some(Obs::of(h)) });
        let (g, panicked) = crate::sim::safe_grad(h);
        v.push(ObsRec { event: usize::MAX - 1, kind: if panicked { "final_grad_read_panicked" } else { "final_grad" }, slot: s, obs: g });
    }
    v
}

/// Runs the perturbed trace and compares every observation with the base run's, bitwise.
pub fn c12_compare(base: &Sim, base_final: &[ObsRec], trace: &[Ev], ps: &[Perturb], regime: Regime) -> Option<Violation> {
    let (pt, renames) = apply(trace, ps);
    let evs: Vec<Ev> = pt.iter().map(|x| x.1.clone()).collect();
    // same guards as the base run (which evaluates them because its monitors are on)
    let fork = {
        let mut sim = Sim::new(crate::sim::SimCfg { regime, monitors: false, guard_mag: true, silent: false });
        let mut src = crate::train::ListSource { evs: &evs, i: 0 };
        let mut rec = Vec::new();
        crate::train::drive(&mut sim, &mut src, &mut rec);
        sim
    };
    // map fork event indices back to base indices
    let back: Vec<usize> = pt.iter().map(|x| x.0).collect();
    let unname = |event: usize, slot: Slot| -> Slot {
        // perturbed slot name -> base slot name
        let mut s = slot;
        for (since, base, pert) in renames.iter().rev() {
            if (event > *since || event == usize::MAX - 1) && s == *pert {
                s = *base;
            }
            if event == *since && s == *pert {
                s = *base; // the build itself wrote the re-bound variable
            }
        }
        s
    };
    let mut fobs: BTreeMap<(usize, &'static str, Slot), Option<Obs>> = BTreeMap::new();
    for r in &fork.obs_log {
        let be = if r.event < back.len() { back[r.event] } else { continue };
        if be == usize::MAX {
            continue;
        }
        fobs.insert((be, r.kind, unname(be, r.slot)), r.obs.clone());
    }
    for r in final_obs(&fork) {
        fobs.insert((r.event, r.kind, unname(r.event, r.slot)), r.obs.clone());
    }
    let class = format!("{:?}", ps.iter().map(|p| format!("{:?}", p).split(' ').next().unwrap().to_string()).collect::<BTreeSet<_>>());
    if fork.dead && !base.dead {
        return Some(v("C12", "perturbed_run_panicked", class, fork.event_index, format!("with {:?} a pass panics that does not panic in the original program: {}", ps, crate::last_panic())));
    }
    for r in base.obs_log.iter().chain(base_final.iter()) {
        if r.kind == "pass_before" {
            continue;
        }
        // in a re-bound variant the operand's old variable does not exist after the build
        if let Some(o) = fobs.get(&(r.event, r.kind, r.slot)) {
            if *o != r.obs {
                return Some(v(
                    "C12",
                    "observation_differs",
                    class,
                    if r.event < usize::MAX - 1 { r.event } else { trace.len().saturating_sub(1) },
                    format!("with {:?}: {} of s{} at event {} is {:?}, in the original program {:?}", ps, r.kind, r.slot, r.event as i64, o.as_ref().map(|x| (x.dims.clone(), x.vals())), r.obs.as_ref().map(|x| (x.dims.clone(), x.vals()))),
                ));
            }
        }
    }
    None
}

/// C12 driver for one base run: returns violations, forks used, and whether a non-trivial
/// perturbation (one that changes the handle topology seen by a pass) was exercised.
pub fn c12(out: &RunOut, seed: u64, exhaustive: bool) -> (Vec<Violation>, u64, bool, Vec<Perturb>) {
    let mut viols = Vec::new();
    let trace = &out.trace;
    if out.sim.dead || out.sim.passes.is_empty() || trace.iter().any(|e| matches!(e, Ev::TrainOpen { .. })) {
        return (viols, 0, false, vec![]);
    }
    // which events executed (not skipped) in the base run: recompute by replaying with a marker
    let (done, nodes_at) = executed_mask_nodes(trace, out.regime);
    let all = perturbations(trace, &done);
    if all.is_empty() {
        return (viols, 0, false, vec![]);
    }
    let base_final = final_obs(&out.sim);
    let mut rng = Rng::new(seed ^ 0xC12);
    let mut forks = 0u64;
    let mut chosen: Vec<Vec<Perturb>> = Vec::new();
    if exhaustive {
        for p in &all {
            chosen.push(vec![p.clone()]);
        }
        for _ in 0..all.len().min(24) {
            let k = 2 + rng.below(3);
            chosen.push(pick_compatible(&all, k, &mut rng));
        }
    } else {
        for _ in 0..6 {
            chosen.push(vec![rng.pick(&all).clone()]);
        }
        for _ in 0..4 {
            let k = 2 + rng.below(4);
            chosen.push(pick_compatible(&all, k, &mut rng));
        }
    }
    let mut nontrivial = false;
    let mut sample = vec![];
    for ps in chosen {
        forks += 1;
        // non-trivial: a clone stands in for an operand used >= 2 times, or a handle whose node a later pass reaches is dropped/re-bound
        for p in &ps {
            match p {
                Perturb::DropAfter { j, slot } | Perturb::RebindSelf { j, slot } => {
                    if let Some(n) = nodes_at[*j].get(*slot).copied().flatten() {
                        if out.sim.passes.iter().any(|q| q.event > *j && q.reach.contains(&n)) {
                            nontrivial = true;
                            sample = ps.clone();
                        }
                    }
                }
                Perturb::CloneOperand { j, k } => {
                    if let Ev::Build { args, .. } = &trace[*j] {
                        let a = args[*k];
                        let uses = trace.iter().filter(|e| matches!(e, Ev::Build { args, .. } if args.contains(&a))).count();
                        if uses >= 2 && out.sim.passes.iter().any(|q| q.event > *j) {
                            nontrivial = true;
                            sample = ps.clone();
                        }
                    }
                }
                Perturb::Rebind { j, .. } => {
                    if out.sim.passes.iter().any(|q| q.event > *j) {
                        nontrivial = true;
                        sample = ps.clone();
                    }
                }
                _ => {}
            }
        }
        if let Some(mut x) = c12_compare(&out.sim, &base_final, trace, &ps, out.regime) {
            x.extra = serde_json::json!({ "perturb": ps });
            viols.push(x);
            break;
        }
    }
    (viols, forks, nontrivial, sample)
}

fn pick_compatible(all: &[Perturb], k: usize, rng: &mut Rng) -> Vec<Perturb> {
    let mut v: Vec<Perturb> = Vec::new();
    for _ in 0..k * 3 {
        if v.len() >= k {
            break;
        }
        let p = rng.pick(all).clone();
        // at most one re-bind (renaming is single-level), no duplicates, one perturbation per (event, kind)
        let clash = v.iter().any(|q| {
            *q == p
                || matches!((q, &p), (Perturb::Rebind { .. }, Perturb::Rebind { .. }))
                || matches!((q, &p), (Perturb::Rebind { j: a, .. }, Perturb::CloneOperand { j: b, .. }) | (Perturb::CloneOperand { j: a, .. }, Perturb::Rebind { j: b, .. }) if a == b)
                || matches!((q, &p), (Perturb::DropAfter { slot: a, .. }, Perturb::RebindSelf { slot: b, .. }) | (Perturb::RebindSelf { slot: a, .. }, Perturb::DropAfter { slot: b, .. }) if a == b)
                || matches!((q, &p), (Perturb::Rebind { .. }, Perturb::DropAfter { .. }) | (Perturb::DropAfter { .. }, Perturb::Rebind { .. }) | (Perturb::Rebind { .. }, Perturb::RebindSelf { .. }) | (Perturb::RebindSelf { .. }, Perturb::Rebind { .. }))
        });
        if !clash {
            v.push(p);
        }
    }
    v
}

pub fn executed_mask(trace: &[Ev], regime: Regime) -> Vec<bool> {
    executed_mask_nodes(trace, regime).0
}

/// Which events executed, and which node every slot holds after every event.
pub fn executed_mask_nodes(trace: &[Ev], regime: Regime) -> (Vec<bool>, Vec<Vec<Option<usize>>>) {
    let mut sim = Sim::new(crate::sim::SimCfg { regime, monitors: false, guard_mag: true, silent: false });
    let mut m = Vec::with_capacity(trace.len());
    let mut nodes = Vec::with_capacity(trace.len());
    for e in trace {
        match sim.step(e) {
            crate::sim::StepOut::Done => m.push(true),
            _ => m.push(false),
        }
        nodes.push(sim.info.iter().map(|h| h.as_ref().map(|x| x.node)).collect());
    }
    (m, nodes)
}

pub fn c12_judge(events: &[Ev], regime: Regime, ps: &[Perturb]) -> Vec<Violation> {
    let sim = run_trace(events, regime, true);
    let mut vs = sim.violations.clone();
    if sim.dead {
        return vs;
    }
    let done = executed_mask(events, regime);
    // a perturbation is only meaningful if it is still applicable to the (possibly minimised) trace
    let all = perturbations(events, &done);
    if ps.iter().all(|p| all.contains(p)) {
        let base_final = final_obs(&sim);
        if let Some(x) = c12_compare(&sim, &base_final, events, ps, regime) {
            vs.push(x);
        }
    }
    vs
}

// -------------------------------------------------------------------------------------------- C17

fn deposits(sim: &Sim, e: usize) -> BTreeMap<usize, (Option<Obs>, Option<Obs>)> {
    let b = recs_at(&sim.obs_log, e, "pass_before");
    let a = recs_at(&sim.obs_log, e, "pass_after");
    let mut m = BTreeMap::new();
    for (s, x) in a {
        m.insert(s, (b.get(&s).map(|o| (*o).clone()).unwrap_or(None), x.clone()));
    }
    m
}

fn dep_vals(d: &(Option<Obs>, Option<Obs>)) -> Option<(Vec<usize>, Vec<f64>)> {
    match d {
        (None, None) => None,
        (None, Some(a)) => Some((a.dims.clone(), a.vals())),
        (Some(b), Some(a)) if a.dims == b.dims => Some((a.dims.clone(), a.vals().iter().zip(b.vals()).map(|(x, y)| x - y).collect())),
        _ => None,
    }
}

#[derive(Clone, Debug, serde::Serialize, serde::Deserialize)]
pub struct C17Case {
    pub event: usize,
    pub s1: Vec<f64>,
    pub s2: Vec<f64>,
    pub alpha: f64,
    pub beta: f64,
    /// homogeneity probe: the seed gamma * s1 (a power of two far from 1); 0 = not probed
    #[serde(default)]
    pub gamma: f64,
}

pub fn c17_case(events: &[Ev], regime: Regime, case: &C17Case) -> (Vec<Violation>, u64) {
    let mut viols = Vec::new();
    let e = case.event;
    let (root, via_clone) = match &events[e] {
        Ev::Pass { root, via_clone, .. } => (*root, *via_clone),
        _ => return (viols, 0),
    };
    let with_seed = |seed: Seed| -> Sim {
        let mut evs: Vec<Ev> = events[..e].to_vec();
        evs.push(Ev::Pass { root, seed, via_clone });
        // the magnitude guard keeps integer data exact in every fork (a guarded pass leaves no deposit)
        let mut sim = Sim::new(crate::sim::SimCfg { regime, monitors: false, guard_mag: true, silent: false });
        let mut src = crate::train::ListSource { evs: &evs, i: 0 };
        let mut rec = Vec::new();
        crate::train::drive(&mut sim, &mut src, &mut rec);
        sim
    };
    let comb: Vec<f64> = case.s1.iter().zip(&case.s2).map(|(a, b)| case.alpha * a + case.beta * b).collect();
    let f1 = with_seed(Seed::Vals(case.s1.clone()));
    let f2 = with_seed(Seed::Vals(case.s2.clone()));
    let f3 = with_seed(Seed::Vals(comb.clone()));
    let fnone = with_seed(Seed::None);
    let fones = with_seed(Seed::Ones);
    let forks = 5;
    if f1.dead || f2.dead || f3.dead || fnone.dead || fones.dead {
        return (viols, forks); // panicking passes are C01's business
    }
    if f1.event_index <= e {
        return (viols, forks);
    }
    // a pass skipped by the magnitude guard in any fork: nothing to compare
    if [&f1, &f2, &f3, &fnone, &fones].iter().any(|f| f.status_log.get(e) != Some(&1)) {
        return (viols, forks);
    }
    // omitted seed == ones, bitwise
    let dn = deposits(&fnone, e);
    let d1s = deposits(&fones, e);
    for (s, x) in &dn {
        if let Some(y) = d1s.get(s) {
            if x.1 != y.1 {
                viols.push(v("C17", "omitted_seed_is_ones", "backward(None) vs backward(ones)".into(), e, format!("slot s{}: gradient after backward(None) {:?} differs from backward(ones) {:?}", s, x.1.as_ref().map(|o| o.vals()), y.1.as_ref().map(|o| o.vals()))));
                return (viols, forks);
            }
        }
    }
    // linearity
    let (d1, d2, d3) = (deposits(&f1, e), deposits(&f2, e), deposits(&f3, e));
    // tolerance scale for non-integer data: the adjoint with every term replaced by its absolute value
    let seed_abs: Vec<f64> = case.s1.iter().zip(&case.s2).map(|(a, b)| (case.alpha * a).abs() + (case.beta * b).abs()).collect();
    let mags = match f3.node_of(root) {
        Some(rn) if f3.g.nodes[rn].vals.len() == seed_abs.len() => f3.g.adjoints(rn, &seed_abs),
        _ => return (viols, forks),
    };
    let vmax = mags.keys().map(|n| f3.g.nodes[*n].vals.iter().fold(0.0f64, |a, b| a.max(b.abs()))).fold(0.0f64, f64::max);
    let smax = seed_abs.iter().fold(0.0f64, |a, b| a.max(*b)).max(1.0);
    for (s, x3) in &d3 {
        let (x1, x2) = match (d1.get(s), d2.get(s)) {
            (Some(a), Some(b)) => (a, b),
            _ => continue,
        };
        let (v1, v2, v3) = (dep_vals(x1), dep_vals(x2), dep_vals(x3));
        match (v1, v2, v3) {
            (None, None, None) => {}
            (Some((da, a)), Some((db, b)), Some((dc, c))) => {
                if da != dc || db != dc {
                    continue; // shape trouble: C03
                }
                let bef_mag: Vec<f64> = match &x3.0 {
                    Some(o) => o.vals().iter().map(|x| x.abs()).collect(),
                    None => vec![0.0; c.len()],
                };
                let node_mag: Vec<f64> = match f3.node_of(*s).and_then(|n| mags.get(&n)) {
                    Some(m) if m.mag.len() == c.len() => m.mag.clone(),
                    _ => vec![0.0; c.len()],
                };
                let mmax = node_mag.iter().fold(0.0f64, |a, b| a.max(*b));
                for i in 0..c.len() {
                    let want = case.alpha * a[i] + case.beta * b[i];
                    let mag = case.alpha.abs() * a[i].abs() + case.beta.abs() * b[i].abs() + c[i].abs() + 3.0 * bef_mag[i] + 3.0 * (node_mag[i] + mmax + vmax * smax);
                    let integral = regime == Regime::Int && [a[i], b[i], c[i], bef_mag[i]].iter().all(|x| x.abs() < crate::sim::exact_bound());
                    let ok = if integral { c[i] == want } else { (c[i] - want).abs() <= tol_k() * eps() * mag + 1e-300 };
                    if !ok {
                        viols.push(v("C17", "seed_linearity", format!("alpha {} beta {}", case.alpha, case.beta), e, format!("slot s{} element {}: deposit with alpha*s1+beta*s2 is {}, alpha*deposit(s1)+beta*deposit(s2) is {} (s1 {:?}, s2 {:?})", s, i, c[i], want, case.s1, case.s2)));
                        return (viols, forks);
                    }
                }
            }
            (a, b, c) => {
                viols.push(v("C17", "seed_linearity_presence", "gradient presence depends on the seed".into(), e, format!("slot s{}: deposits present? s1 {} s2 {} combination {}", s, a.is_some(), b.is_some(), c.is_some())));
                return (viols, forks);
            }
        }
    }
    // homogeneity far from 1: the seed gamma * s1 (gamma a power of two, so scaling is exact) must
    // give gamma times the deposits of s1 - an absolute threshold inside a kernel breaks this
    if case.gamma != 0.0 {
        let scaled: Vec<f64> = case.s1.iter().map(|x| x * case.gamma).collect();
        let f4 = {
            let mut evs: Vec<Ev> = events[..e].to_vec();
            evs.push(Ev::Pass { root, seed: Seed::Vals(scaled.clone()), via_clone });
            run_trace(&evs, regime, false)
        };
        if !f4.dead && f4.status_log.get(e) == Some(&1) {
            let d4 = deposits(&f4, e);
            let s1abs: Vec<f64> = case.s1.iter().map(|x| x.abs()).collect();
            let mags1 = match f3.node_of(root) {
                Some(rn) => f3.g.adjoints(rn, &s1abs),
                None => return (viols, forks + 1),
            };
            for (s, x4) in &d4 {
                let x1 = match d1.get(s) {
                    Some(a) => a,
                    None => continue,
                };
                if let (Some((da, a)), Some((dc, c))) = (dep_vals(x1), dep_vals(x4)) {
                    if da != dc {
                        continue;
                    }
                    let node_mag: Vec<f64> = match f3.node_of(*s).and_then(|n| mags1.get(&n)) {
                        Some(m) if m.mag.len() == c.len() => m.mag.clone(),
                        _ => continue,
                    };
                    let mmax = node_mag.iter().fold(0.0f64, |p, q| p.max(*q));
                    let bef: Vec<f64> = match &x4.0 {
                        Some(o) => o.vals().iter().map(|x| x.abs()).collect(),
                        None => vec![0.0; c.len()],
                    };
                    for i in 0..c.len() {
                        let want = case.gamma * a[i];
                        // deposits are differences after - before: their absolute error is eps * |before|, scaled by gamma on the right-hand side
                        let tol = tol_k() * eps() * (case.gamma.abs() * (node_mag[i] + mmax) + 4.0 * bef[i] * case.gamma.abs().max(1.0)) + 1e-300;
                        if !((c[i] - want).abs() <= tol) {
                            viols.push(v("C17", "seed_homogeneity", format!("gamma 2^{}", case.gamma.log2()), e, format!("slot s{} element {}: deposit with seed gamma*s1 is {:e}, gamma*deposit(s1) is {:e} (gamma {:e}, s1 {:?})", s, i, c[i], want, case.gamma, case.s1)));
                            return (viols, forks + 1);
                        }
                    }
                }
            }
        }
        return (viols, forks + 1);
    }
    (viols, forks)
}

/// C17 driver: for executed passes of the run, fork the prefix with seeded seeds.
pub fn c17(out: &RunOut, seed: u64) -> (Vec<Violation>, u64, bool, Option<C17Case>) {
    let mut rng = Rng::new(seed ^ 0xC17);
    let mut forks = 0;
    let mut nontrivial = false;
    let mut last_case = None;
    if has_update(&out.trace) {
        return (vec![], 0, false, None);
    }
    let passes: Vec<_> = out.sim.passes.iter().filter(|p| !(out.sim.dead && p.event + 1 == out.sim.event_index)).collect();
    if passes.is_empty() {
        return (vec![], 0, false, None);
    }
    // up to three passes per run, preferring those on graphs touched by earlier passes
    let mut order: Vec<usize> = (0..passes.len()).collect();
    rng.shuffle(&mut order);
    order.sort_by_key(|i| !passes[*i].overlapped_earlier);
    for &pi in order.iter().take(3) {
        let p = passes[pi];
        let n = out.sim.g.nodes[p.root].vals.len();
        let draw = |rng: &mut Rng| -> Vec<f64> {
            (0..n)
                .map(|_| match out.regime {
                    Regime::Int => rng.range(-3, 3) as f64,
                    Regime::Smooth => rng.range(-12, 12) as f64 / 4.0,
                })
                .collect()
        };
        let s1 = draw(&mut rng);
        let s2 = draw(&mut rng);
        let alpha = *rng.pick(&[2.0, -1.0, 3.0, 0.5, 1.0]);
        let beta = *rng.pick(&[1.0, -2.0, 2.0, -0.5, 0.0]);
        let gamma = match rng.weighted(&[40, 25, 20, 15]) {
            0 => 0.0,
            1 => (2.0f64).powi(-60),
            2 => (2.0f64).powi(-30),
            _ => (2.0f64).powi(if cfg!(feature = "f32") { 12 } else { 30 }),
        };
        let case = C17Case { event: p.event, s1: s1.clone(), s2: s2.clone(), alpha, beta, gamma };
        let independent = n >= 2 && (0..n).any(|i| (0..n).any(|j| s1[i] * s2[j] != s1[j] * s2[i]));
        if independent && !p.root_is_leaf && p.overlapped_earlier {
            nontrivial = true;
        }
        let (mut vs, f) = c17_case(&out.trace, out.regime, &case);
        forks += f;
        for x in vs.iter_mut() {
            x.extra = serde_json::json!({ "case": case });
        }
        last_case = Some(case);
        if !vs.is_empty() {
            return (vs, forks, nontrivial, last_case);
        }
    }
    (vec![], forks, nontrivial, last_case)
}

pub fn c17_judge(events: &[Ev], regime: Regime, case: &C17Case) -> Vec<Violation> {
    let sim = run_trace(events, regime, true);
    let mut vs = sim.violations.clone();
    if case.event < events.len() {
        vs.extend(c17_case(events, regime, case).0);
    }
    vs
}

// ------------------------------------------------------------------------------ systematic sweeps

fn permutations(n: usize, limit: usize) -> Vec<Vec<usize>> {
    fn rec(cur: &mut Vec<usize>, used: &mut Vec<bool>, n: usize, out: &mut Vec<Vec<usize>>, limit: usize) {
        if out.len() >= limit {
            return;
        }
        if cur.len() == n {
            out.push(cur.clone());
            return;
        }
        for i in 0..n {
            if !used[i] {
                used[i] = true;
                cur.push(i);
                rec(cur, used, n, out, limit);
                cur.pop();
                used[i] = false;
            }
        }
    }
    let mut out = Vec::new();
    rec(&mut Vec::new(), &mut vec![false; n], n, &mut out, limit);
    out
}

/// C18: after the history, drop the result handles in every (or a few seeded) order(s), then
/// probe every remaining leaf handle. The verdict is the ordinary retire monitor's.
pub fn c18_orders(out: &RunOut, seed: u64, exhaustive: bool) -> (Vec<Violation>, u64, u64) {
    if out.sim.dead || has_update(&out.trace) && out.sim.train.iterations > 0 {
        return (vec![], 0, 0);
    }
    let s = &out.sim;
    let results: Vec<Slot> = s.live_slots().into_iter().filter(|x| s.g.nodes[s.node_of(*x).unwrap()].has_graph || s.g.nodes[s.node_of(*x).unwrap()].op.is_some()).collect();
    let leaves: Vec<Slot> = s.live_slots().into_iter().filter(|x| !results.contains(x)).collect();
    if results.len() < 2 || results.len() > 6 || leaves.is_empty() {
        return (vec![], 0, 0);
    }
    let mut rng = Rng::new(seed ^ 0xC18);
    let orders: Vec<Vec<usize>> = if exhaustive {
        permutations(results.len(), 720)
    } else {
        (0..2)
            .map(|_| {
                let mut o: Vec<usize> = (0..results.len()).collect();
                rng.shuffle(&mut o);
                o
            })
            .collect()
    };
    let mut forks = 0;
    for o in &orders {
        let mut evs = out.trace.clone();
        evs.push(Ev::DropHeld);
        for i in o {
            evs.push(Ev::DropSlot { slot: results[*i] });
        }
        let mut ls = leaves.clone();
        rng.shuffle(&mut ls);
        for l in &ls {
            evs.push(Ev::Retire { slot: *l });
        }
        forks += 1;
        let sim = run_trace(&evs, out.regime, true);
        if let Some(v0) = sim.violations.iter().find(|x| x.prop == "C18" && x.event >= out.trace.len()) {
            let mut x = v0.clone();
            x.extra = serde_json::json!({ "trace": evs });
            return (vec![x], forks, orders.len() as u64);
        }
    }
    (vec![], forks, orders.len() as u64)
}

/// C10: construction events only, then ordered pairs / triples of passes over the live roots;
/// absolute monitors and the solo oracle judge each schedule.
pub fn c10_sweep(out: &RunOut, seed: u64, exhaustive: bool) -> (Vec<Violation>, u64) {
    if out.sim.dead || has_update(&out.trace) {
        return (vec![], 0);
    }
    let s = &out.sim;
    let roots: Vec<Slot> = s.live_slots().into_iter().filter(|x| s.g.nodes[s.node_of(*x).unwrap()].has_graph).collect();
    if roots.len() < 2 || roots.len() > 6 {
        return (vec![], 0);
    }
    let base: Vec<Ev> = out.trace.iter().map(|e| if matches!(e, Ev::Pass { .. } | Ev::GradClear { .. }) { Ev::Nop } else { e.clone() }).collect();
    let mut rng = Rng::new(seed ^ 0xC10);
    let mut schedules: Vec<Vec<Slot>> = Vec::new();
    if exhaustive {
        for a in &roots {
            for b in &roots {
                schedules.push(vec![*a, *b]);
            }
        }
        for _ in 0..roots.len() * 4 {
            schedules.push(vec![*rng.pick(&roots), *rng.pick(&roots), *rng.pick(&roots)]);
        }
    } else {
        for _ in 0..2 {
            let k = 2 + rng.below(2);
            schedules.push((0..k).map(|_| *rng.pick(&roots)).collect());
        }
    }
    let mut forks = 0;
    for sch in &schedules {
        let mut evs = base.clone();
        for r in sch {
            evs.push(Ev::Pass { root: *r, seed: Seed::None, via_clone: false });
        }
        forks += 1;
        let vs = c10_judge(&evs, out.regime);
        if let Some(v0) = vs.iter().find(|x| x.prop == "C10" && x.event >= base.len()) {
            let mut x = v0.clone();
            x.extra = serde_json::json!({ "trace": evs });
            return (vec![x], forks);
        }
    }
    (vec![], forks)
}

// ------------------------------------------------------------------- C11: exhaustive small DAGs

/// The `index`-th DAG of `n` user-operation nodes over one tracked leaf: node k (1-based) is an
/// n-ary linear user operation over 1..=3 operands drawn (with repetition) from the leaf and the
/// earlier nodes. Returns None when the index is out of range.
pub fn small_dag(n: usize, mut index: u64) -> Option<Vec<Ev>> {
    let mut evs = vec![Ev::Leaf { dst: 0, dims: vec![2], vals: vec![1.0, -2.0], mode: LeafMode::Tracked }];
    for k in 1..=n {
        let avail = k as u64; // leaf + (k-1) earlier nodes
        let choices = avail + avail * avail + avail * avail * avail;
        let mut c = index % choices;
        index /= choices;
        let arity = if c < avail {
            1
        } else if c < avail + avail * avail {
            c -= avail;
            2
        } else {
            c -= avail + avail * avail;
            3
        };
        let mut args = Vec::new();
        for _ in 0..arity {
            args.push((c % avail) as usize);
            c /= avail;
        }
        let coef: Vec<f64> = (0..arity).map(|i| [1.0, 2.0, -1.0][i]).collect();
        evs.push(Ev::Build { dst: k, op: Op::Custom { kind: CustomKind::Lin, coef, script: vec![] }, args });
    }
    if index != 0 {
        return None;
    }
    Some(evs)
}

pub fn small_dag_count(n: usize) -> u64 {
    (1..=n as u64).map(|a| a + a * a + a * a * a).product()
}

// ------------------------------------------------------------- unobserved replay (reads are pure)

/// The same history as a program would run it that never looks at a gradient before the end: no
/// monitor, no relational observation, gradient reads removed, guarded events removed. What it
/// finally sees (values and gradients of every live handle) must be what the observed run saw.
pub fn unobserved(out: &RunOut) -> (Vec<Violation>, u64) {
    if out.sim.dead || out.sim.passes.is_empty() || out.trace.iter().any(|e| matches!(e, Ev::TrainOpen { .. })) {
        return (vec![], 0);
    }
    let evs: Vec<Ev> = out
        .trace
        .iter()
        .enumerate()
        .map(|(i, e)| {
            let skipped_by_guard = out.sim.status_log.get(i) == Some(&4);
            if skipped_by_guard || matches!(e, Ev::GradRead { .. }) {
                Ev::Nop
            } else {
                e.clone()
            }
        })
        .collect();
    let mut sim = Sim::new(crate::sim::SimCfg { regime: out.regime, monitors: false, guard_mag: false, silent: true });
    let mut src = crate::train::ListSource { evs: &evs, i: 0 };
    let mut rec = Vec::new();
    crate::train::drive(&mut sim, &mut src, &mut rec);
    if sim.dead {
        return (vec![v("C10", "unobserved_history_panicked", "history without intermediate gradient reads".into(), sim.event_index, format!("the same history panics when no gradient is read in between: {}", crate::last_panic()))], 1);
    }
    let base = final_obs(&out.sim);
    let fork = final_obs(&sim);
    if fork.iter().any(|r| r.kind == "final_grad_read_panicked") {
        let x = v("C10", "unobserved_history_panicked", "history without intermediate gradient reads".into(), out.trace.len().saturating_sub(1), format!("reading a gradient at the end of the same history, run without intermediate reads, panics: {}", crate::last_panic()));
        let mut y = x.clone();
        y.prop = "C01";
        return (vec![x, y], 1);
    }
    let fmap: BTreeMap<(&'static str, Slot), &Option<Obs>> = fork.iter().map(|r| ((r.kind, r.slot), &r.obs)).collect();
    for r in &base {
        if let Some(o) = fmap.get(&(r.kind, r.slot)) {
            if **o != r.obs {
                let mut x = v(
                    "C10",
                    "unobserved_history_differs",
                    format!("{} without intermediate gradient reads", r.kind),
                    out.trace.len().saturating_sub(1),
                    format!("{} of s{} is {:?} when gradients are read after every step, but {:?} when the same history runs without looking at any gradient before the end", r.kind, r.slot, r.obs.as_ref().map(|x| x.vals()), o.as_ref().map(|x| x.vals())),
                );
                x.extra = serde_json::Value::Null;
                let mut y = x.clone();
                y.prop = "C01";
                let mut z = x.clone();
                z.prop = "C12";
                return (vec![x, y, z], 1);
            }
        }
    }
    (vec![], 1)
}

pub fn unobserved_judge(events: &[Ev], regime: Regime) -> Vec<Violation> {
    let sim = run_trace(events, regime, true);
    let out = RunOut { trace: events.to_vec(), actors: vec![], digest: 0, regime, sim };
    let mut vs = out.sim.violations.clone();
    vs.extend(unobserved(&out).0);
    vs
}
