#![allow(dead_code)]
mod c19;
mod event;
mod gen;
mod refmodel;
mod relational;
mod rng;
mod runner;
mod shadow;
mod sim;
mod train;
mod world;

use std::cell::RefCell;

thread_local! {
    static LAST_PANIC: RefCell<String> = RefCell::new(String::new());
}

pub fn last_panic() -> String {
    LAST_PANIC.with(|p| p.borrow().clone())
}

fn install_panic_hook() {
    std::panic::set_hook(Box::new(|info| {
        let msg = if let Some(s) = info.payload().downcast_ref::<&str>() {
            s.to_string()
        } else if let Some(s) = info.payload().downcast_ref::<String>() {
            s.clone()
        } else {
            "panic".to_string()
        };
        let loc = info.location().map(|l| format!(" at {}:{}", l.file(), l.line())).unwrap_or_default();
        LAST_PANIC.with(|p| *p.borrow_mut() = format!("{}{}", msg, loc));
        let in_harness = info.location().map(|l| l.file().starts_with("src/")).unwrap_or(true);
        if std::env::var("CORGISIM_SHOW_PANICS").is_ok() || (in_harness && !msg.contains("corgi_verif: step budget")) {
            eprintln!("[panic] {}{}", msg, loc);
        }
    }));
}

fn main() {
    install_panic_hook();
    let args: Vec<String> = std::env::args().collect();
    let code = runner::cli(&args[1..]);
    std::process::exit(code);
}
