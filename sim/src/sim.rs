//! The simulator core: executes explicit events against real corgi handles and against the
//! shadow, and evaluates every monitor after every event.

use crate::event::*;
use crate::refmodel::{self, numel};
use crate::shadow::{Edge, Explicit, Graph, HInfo, Node};
use crate::world::{self, bits, mk, read_flag, to_f64, Shared};
use corgi::array::Array;
use corgi::numbers::Float;
use corgi::optimizer::gd::GradientDescent;
use corgi::optimizer::Optimizer;
use std::collections::{BTreeMap, BTreeSet};
use std::panic::{catch_unwind, AssertUnwindSafe};
use std::rc::Rc;

#[derive(Clone, Copy, Debug, PartialEq)]
pub enum Regime {
    Int,
    Smooth,
}

#[derive(Clone, Debug)]
pub struct SimCfg {
    pub regime: Regime,
    /// run the monitors (false in forks that only need the real engine's observations)
    pub monitors: bool,
    /// evaluate the adjoint-magnitude guard at passes even when the monitors are off
    pub guard_mag: bool,
    /// never read a gradient between events (no relational observations at passes): the history as a
    /// program would run it that only looks at its gradients at the very end
    pub silent: bool,
}

#[derive(Clone, Debug)]
pub struct Violation {
    pub prop: &'static str,
    pub monitor: &'static str,
    pub class: String,
    pub event: usize,
    pub detail: String,
    /// check-specific payload needed to re-judge the violation from a replay file
    pub extra: serde_json::Value,
}

#[derive(Clone, Debug, PartialEq)]
pub struct Obs {
    pub dims: Vec<usize>,
    pub bits: Vec<u64>,
}

/// Reads a gradient slot the way a program does; None with `true` when the read itself panicked.
pub fn safe_grad(h: &Array) -> (Option<Obs>, bool) {
    match catch_unwind(AssertUnwindSafe(|| h.gradient().as_ref().map(Obs::of))) {
        Ok(g) => (g, false),
        Err(_) => (None, true),
    }
}

impl Obs {
    pub fn of(a: &Array) -> Obs {
        Obs { dims: a.dimensions().to_vec(), bits: bits(a.values()) }
    }
    pub fn vals(&self) -> Vec<f64> {
        self.bits.iter().map(|b| f64::from_bits(*b)).collect()
    }
}

#[derive(Clone, Debug, PartialEq)]
pub struct ObsRec {
    pub event: usize,
    pub kind: &'static str,
    pub slot: usize,
    pub obs: Option<Obs>,
}

pub struct Held {
    pub arr: Array,
    pub snap: Obs,
    pub what: &'static str,
    /// reference node when the held array is a handle of a known node
    pub node: Option<usize>,
    /// training iteration the held array belongs to (0 = none)
    pub tag: u64,
}

/// What one pass looked like; used by coverage rules.
#[derive(Clone, Debug, Default)]
pub struct PassInfo {
    pub event: usize,
    pub root: usize,
    pub reach: Vec<usize>,
    pub max_fan_in: usize,
    pub custom_nodes: usize,
    pub had_untracked_edge: bool,
    pub had_tracked_edge: bool,
    pub other_live_consumers: bool,
    pub bcast_first_later: (bool, bool),
    pub depth: usize,
    pub overlapped_earlier: bool,
    pub root_is_leaf: bool,
    pub via_clone: bool,
    pub invocations: usize,
    pub engine_steps: u64,
    pub engine_size: u64,
}

#[derive(Clone, Debug, Default)]
pub struct Counters {
    pub executed: u64,
    pub skipped: u64,
    pub unexpected_refusal: u64,
    pub forward_nonconformance: u64,
    pub domain_guard: u64,
    pub magnitude_guard: u64,
    pub refused_as_expected: u64,
    pub refused_not: u64,
    pub retire_ok: u64,
    pub retire_control_panics: u64,
    pub retire_control_ok: u64,
    pub exact_compares: u64,
    pub tol_compares: u64,
    pub max_err_over_tol: f64,
    pub flags_read: u64,
    pub alias_checks: u64,
    pub updates: u64,
    pub updates_frozen_middle: u64,
    pub stale_reads: u64,
    pub reference_selfchecks: u64,
}

pub fn status_code(out: &StepOut) -> u8 {
    match out {
        StepOut::Done => 1,
        StepOut::Dead => 3,
        StepOut::Skipped(why) => {
            if why.contains("guard") || why.contains("kink") || why.contains("non-finite") {
                4
            } else if why.contains("refused") || why.contains("conform") {
                5
            } else {
                2
            }
        }
    }
}

pub enum StepOut {
    Done,
    Skipped(&'static str),
    /// the engine state is undefined (a pass panicked); the run must stop here
    Dead,
}

pub struct Sim {
    pub cfg: SimCfg,
    pub sh: Rc<Shared>,
    pub info: Vec<Option<HInfo>>,
    pub g: Graph,
    pub held: Vec<Held>,
    /// snapshot of every node's values as first seen through a real handle
    pub snaps: BTreeMap<usize, Obs>,
    /// last observed gradient slot content per node (nodes with a live handle only)
    pub grad_obs: BTreeMap<usize, Option<Obs>>,
    pub violations: Vec<Violation>,
    pub cnt: Counters,
    pub passes: Vec<PassInfo>,
    /// nodes that were in the reachable set of some earlier pass
    pub passed_nodes: BTreeSet<usize>,
    pub event_index: usize,
    pub dead: bool,
    /// per-event observation log for relational oracles: (event index, label, observation)
    pub obs_log: Vec<ObsRec>,
    pub digest: crate::rng::Fnv,
    pub faults: BTreeMap<&'static str, u64>,
    pub c18_nontrivial: u64,
    pub c13_nontrivial: u64,
    pub c08_nontrivial: u64,
    pub c09_toggled_alias: bool,
    pub train: crate::train::TrainStats,
    pub model_output_iter: Option<u64>,
    /// 0 no training span, 1 layers alive, 2 model open (idle), 3 after forward, 4 after backward
    pub train_phase: u8,
    pub train_out_dims: Option<Vec<usize>>,
    pub train_first_layer: Option<LayerSpec>,
    pub train_param_count: usize,
    /// nodes that are live model parameters seen through an observer's handle: other actors are
    /// read-only with respect to their gradient cell (no pass from them, no clear, no tracking)
    pub protected: BTreeSet<usize>,
    /// per event: 1 done, 2 skipped (precondition), 3 dead, 4 skipped by a harness guard, 5 refused / nonconforming in corgi
    pub status_log: Vec<u8>,
    /// persistent optimizer objects (id -> object, learning rate)
    pub optimizers: BTreeMap<usize, (Rc<GradientDescent>, f64)>,
    /// input batches handed to a model: node -> iteration whose output graph holds them
    pub model_pins: BTreeMap<usize, u64>,
    pub train_frozen_flags: Vec<[bool; 2]>,
    pub train_layer_count: usize,
    /// the persistent optimizer a running training span borrows (other actors must not use it meanwhile)
    pub train_opt_in_use: Option<usize>,
    /// an evaluation forward happened after a backward: a further backward (gradient accumulation) is legal
    pub train_eval_pending: bool,
    /// nodes whose gradient slot holds a user-stored array of another shape (a pass must not add to it)
    pub user_shaped: BTreeSet<usize>,
    pub read_panics: std::cell::Cell<u32>,
    /// buffers that a seed taken from a live handle may have leaked into stored gradients
    pub seed_pinned_aliases: BTreeSet<usize>,
}

pub const EXACT_BOUND_F64: f64 = 1125899906842624.0; // 2^50
pub const EXACT_BOUND_F32: f64 = 16777216.0; // 2^24

/// Set (before any run starts) by the cross-build check so that both builds apply the same guards.
pub static FORCE_F32_BOUND: std::sync::atomic::AtomicBool = std::sync::atomic::AtomicBool::new(false);

pub fn exact_bound() -> f64 {
    if cfg!(feature = "f32") || FORCE_F32_BOUND.load(std::sync::atomic::Ordering::Relaxed) {
        EXACT_BOUND_F32
    } else {
        EXACT_BOUND_F64
    }
}

pub fn eps() -> f64 {
    if cfg!(feature = "f32") {
        1.1920929e-7
    } else {
        2.220446049250313e-16
    }
}

pub fn tol_k() -> f64 {
    if cfg!(feature = "f32") {
        1.0e4
    } else {
        1.0e6
    }
}

/// Number of fractional binary digits of a dyadic value (capped).
pub fn frac_bits(x: f64) -> u32 {
    let mut k = 0;
    let mut y = x.abs();
    while y.fract() != 0.0 && k < 64 {
        y *= 2.0;
        k += 1;
    }
    k
}

pub fn max_frac(v: &[f64]) -> u32 {
    v.iter().map(|x| frac_bits(*x)).max().unwrap_or(0)
}

fn op_const_frac(op: &Op) -> u32 {
    match op {
        Op::Scale(k) | Op::Axpy(k) => frac_bits(*k),
        Op::Custom { coef, .. } => max_frac(coef),
        _ => 0,
    }
}

fn pow2(k: u32) -> f64 {
    (2.0f64).powi(k.min(1000) as i32)
}

impl Sim {
    pub fn new(cfg: SimCfg) -> Sim {
        Sim {
            cfg,
            sh: Shared::new(),
            info: Vec::new(),
            g: Graph::default(),
            held: Vec::new(),
            snaps: BTreeMap::new(),
            grad_obs: BTreeMap::new(),
            violations: Vec::new(),
            cnt: Counters::default(),
            passes: Vec::new(),
            passed_nodes: BTreeSet::new(),
            event_index: 0,
            dead: false,
            obs_log: Vec::new(),
            digest: Default::default(),
            faults: BTreeMap::new(),
            c18_nontrivial: 0,
            c13_nontrivial: 0,
            c08_nontrivial: 0,
            c09_toggled_alias: false,
            train: Default::default(),
            model_output_iter: None,
            train_phase: 0,
            train_out_dims: None,
            train_first_layer: None,
            train_param_count: 0,
            protected: BTreeSet::new(),
            status_log: Vec::new(),
            optimizers: BTreeMap::new(),
            model_pins: BTreeMap::new(),
            train_frozen_flags: Vec::new(),
            train_layer_count: 0,
            train_opt_in_use: None,
            train_eval_pending: false,
            user_shaped: BTreeSet::new(),
            read_panics: std::cell::Cell::new(0),
            seed_pinned_aliases: BTreeSet::new(),
        }
    }

    pub fn fault(&mut self, k: &'static str) {
        *self.faults.entry(k).or_insert(0) += 1;
    }

    fn viol(&mut self, prop: &'static str, monitor: &'static str, class: String, detail: String) {
        if self.cfg.monitors {
            self.violations.push(Violation { prop, monitor, class, event: self.event_index, detail, extra: serde_json::Value::Null });
        }
    }

    pub fn nslots(&self) -> usize {
        self.info.len()
    }

    fn ensure_slot(&mut self, s: Slot) {
        if self.info.len() <= s {
            self.info.resize(s + 1, None);
            self.sh.slots.borrow_mut().resize_with(s + 1, || None);
        }
    }

    pub fn live(&self, s: Slot) -> bool {
        s < self.info.len() && self.info[s].is_some()
    }

    pub fn hinfo(&self, s: Slot) -> Option<&HInfo> {
        self.info.get(s).and_then(|x| x.as_ref())
    }

    pub fn node_of(&self, s: Slot) -> Option<usize> {
        self.hinfo(s).map(|h| h.node)
    }

    pub fn live_slots(&self) -> Vec<Slot> {
        (0..self.info.len()).filter(|s| self.info[*s].is_some()).collect()
    }

    /// Puts a handle into a slot (dropping whatever the slot held).
    pub(crate) fn put(&mut self, s: Slot, arr: Array, hi: HInfo) {
        self.ensure_slot(s);
        let node = hi.node;
        if !self.snaps.contains_key(&node) {
            self.snaps.insert(node, Obs::of(&arr));
        }
        let old = self.sh.slots.borrow_mut()[s].replace(arr);
        drop(old);
        self.info[s] = Some(hi);
    }

    fn take(&mut self, s: Slot) -> Option<(Array, HInfo)> {
        if !self.live(s) {
            return None;
        }
        let a = self.sh.slots.borrow_mut()[s].take().unwrap();
        let h = self.info[s].take().unwrap();
        Some((a, h))
    }

    /// Nodes that have a live handle (slots and held handles).
    pub fn handle_nodes(&self) -> Vec<usize> {
        let mut v: Vec<usize> = self.info.iter().flatten().map(|h| h.node).collect();
        v.extend(self.held.iter().filter_map(|h| h.node));
        v
    }

    pub(crate) fn new_leaf_node(&mut self, dims: &[usize], vals: &[f64], origin: &'static str) -> usize {
        let alias = self.g.fresh_alias();
        self.g.add(Node { op: None, edges: vec![], has_graph: false, dims: dims.to_vec(), vals: vals.to_vec(), alias, origin })
    }

    // ------------------------------------------------------------------ observation helpers

    /// Reads a gradient slot the way a program does; a read that panics is reported by the caller.
    fn read_gradient(h: &Array) -> Result<Option<Obs>, ()> {
        catch_unwind(AssertUnwindSafe(|| h.gradient().as_ref().map(Obs::of))).map_err(|_| ())
    }

    fn observe_grads(&self) -> BTreeMap<usize, Vec<(String, Option<Obs>)>> {
        // per node: the gradient as seen through every live handle of it
        let mut m: BTreeMap<usize, Vec<(String, Option<Obs>)>> = BTreeMap::new();
        let slots = self.sh.slots.borrow();
        for (s, hi) in self.info.iter().enumerate() {
            if let Some(hi) = hi {
                let h = slots[s].as_ref().unwrap();
                match Self::read_gradient(h) {
                    Ok(g) => m.entry(hi.node).or_default().push((format!("s{}", s), g)),
                    Err(_) => {
                        self.read_panics.set(self.read_panics.get() + 1);
                        m.entry(hi.node).or_default().push((format!("s{}", s), None));
                    }
                }
            }
        }
        for (i, h) in self.held.iter().enumerate() {
            if let Some(n) = h.node {
                match Self::read_gradient(&h.arr) {
                    Ok(g) => m.entry(n).or_default().push((format!("held{}", i), g)),
                    Err(_) => {
                        self.read_panics.set(self.read_panics.get() + 1);
                        m.entry(n).or_default().push((format!("held{}", i), None));
                    }
                }
            }
        }
        m
    }

    /// C12 (visibility through every clone) and refresh of `grad_obs`. Returns the per-node view.
    fn sweep_grads(&mut self) -> BTreeMap<usize, Option<Obs>> {
        let per = self.observe_grads();
        if self.read_panics.get() > 0 {
            self.read_panics.set(0);
            let msg = crate::last_panic();
            self.viol("C10", "gradient_read_panicked", "reading a gradient".into(), format!("gradient() panicked: {}", msg));
            self.viol("C01", "gradient_read_panicked", "reading a gradient".into(), format!("gradient() panicked: {}", msg));
            self.dead = true;
        }
        let mut out = BTreeMap::new();
        for (n, views) in per {
            let first = views[0].1.clone();
            for (name, v) in &views[1..] {
                if *v != first {
                    self.viol(
                        "C12",
                        "clone_visibility",
                        "gradient differs between clones".into(),
                        format!("node {} gradient seen through {} differs from {}", n, name, views[0].0),
                    );
                }
            }
            out.insert(n, first);
        }
        out
    }

    /// After an event that must not touch gradients (or touches only `except`), nothing changed.
    fn check_grads_unchanged(&mut self, now: &BTreeMap<usize, Option<Obs>>, except: &BTreeSet<usize>, what: &'static str) {
        let mut bad = Vec::new();
        for (n, g) in now {
            // live model parameters seen through an observer's handle change with the training loop
            if except.contains(n) || self.protected.contains(n) {
                continue;
            }
            match self.grad_obs.get(n) {
                Some(prev) => {
                    if prev != g {
                        bad.push(*n);
                    }
                }
                None => {
                    // first time this node is observed: a fresh array has no gradient
                    if g.is_some() && !self.passed_nodes.contains(n) {
                        bad.push(*n);
                    }
                }
            }
        }
        for n in bad {
            self.viol("C10", "spurious_gradient_change", what.into(), format!("gradient slot of node {} changed by a {} event", n, what));
            if matches!(what, "clone" | "flagclone" | "flag" | "rebind" | "drop" | "swap" | "gradread") {
                // a handle operation changed a result: handles are not transparent
                self.viol("C12", "handle_operation_changed_gradient", what.into(), format!("gradient slot of node {} changed by a {} event", n, what));
            }
        }
    }

    fn commit_grads(&mut self, now: BTreeMap<usize, Option<Obs>>) {
        self.grad_obs = now;
    }

    /// C08: every live handle and every held observation still shows its first-seen dims and bits.
    fn check_immutability(&mut self, touched_alias: Option<&BTreeSet<usize>>) {
        if !self.cfg.monitors {
            return;
        }
        let mut bad: Vec<String> = Vec::new();
        let mut watched_touched = false;
        {
            let slots = self.sh.slots.borrow();
            for (s, hi) in self.info.iter().enumerate() {
                if let Some(hi) = hi {
                    let h = slots[s].as_ref().unwrap();
                    let snap = &self.snaps[&hi.node];
                    self.cnt.alias_checks += 1;
                    if h.dimensions() != &snap.dims[..] || bits(h.values()) != snap.bits {
                        bad.push(format!("slot s{} (node {}, {})", s, hi.node, self.g.nodes[hi.node].origin));
                    }
                    if let Some(t) = touched_alias {
                        if t.contains(&self.g.nodes[hi.node].alias) {
                            watched_touched = true;
                        }
                    }
                }
            }
            for (i, h) in self.held.iter().enumerate() {
                self.cnt.alias_checks += 1;
                if h.arr.dimensions() != &h.snap.dims[..] || bits(h.arr.values()) != h.snap.bits {
                    bad.push(format!("held observation {} ({})", i, h.what));
                }
                if touched_alias.is_some() {
                    watched_touched = true;
                }
            }
        }
        if watched_touched {
            self.c08_nontrivial += 1;
        }
        if !bad.is_empty() {
            // an existing array changed under the program: nothing the shadow knows can be trusted any more
            self.dead = true;
        }
        for b in bad {
            self.viol("C08", "alias_changed", "values or dimensions of an existing array changed".into(), b);
        }
    }

    /// C09: the flag of every live handle equals the shadow's.
    fn check_flags(&mut self, what: &'static str) {
        if !self.cfg.monitors {
            return;
        }
        let mut bad = Vec::new();
        {
            let slots = self.sh.slots.borrow();
            for (s, hi) in self.info.iter().enumerate() {
                if let Some(hi) = hi {
                    let h = slots[s].as_ref().unwrap();
                    self.cnt.flags_read += 1;
                    let f = read_flag(h);
                    if f != hi.tracked {
                        bad.push((s, hi.node, f, hi.tracked));
                    }
                }
            }
        }
        for (s, n, f, want) in bad {
            let class = match &self.g.nodes[n].op {
                Some(op) => format!("flag after {} on {}", what, op.name()),
                None => format!("flag after {} on leaf", what),
            };
            let prop = if what == "update" { "C13" } else { "C09" };
            self.viol(prop, "handle_flag", class, format!("slot s{} (node {}) reads tracked={} but must be {}", s, n, f, want));
        }
    }

    // ------------------------------------------------------------------ comparisons

    /// Compares real values with reference values. `mag` scales the tolerance when not exact.
    fn values_match(&mut self, got: &[f64], want: &[f64], mag: &[f64], scale: f64) -> Result<(), String> {
        if got.len() != want.len() {
            return Err(format!("length {} vs {}", got.len(), want.len()));
        }
        let bound = exact_bound();
        let exact = self.cfg.regime == Regime::Int && mag.iter().all(|m| *m <= bound) && want.iter().all(|m| m.abs() <= bound) && want.iter().all(|w| ((*w as Float) as f64) == *w);
        if exact {
            self.cnt.exact_compares += 1;
            for i in 0..got.len() {
                if got[i] != want[i] {
                    return Err(format!("element {}: got {} want {} (exact)", i, got[i], want[i]));
                }
            }
            Ok(())
        } else {
            self.cnt.tol_compares += 1;
            let mmax = mag.iter().fold(0.0f64, |a, b| a.max(*b));
            for i in 0..got.len() {
                let tol = tol_k() * eps() * (mag[i] + mmax + scale + want[i].abs()) + 1e-300;
                let err = (got[i] - want[i]).abs();
                if !(err <= tol) {
                    return Err(format!("element {}: got {} want {} (|err| {} > tol {})", i, got[i], want[i], err, tol));
                }
                let r = err / tol;
                if r > self.cnt.max_err_over_tol {
                    self.cnt.max_err_over_tol = r;
                }
            }
            Ok(())
        }
    }

    // ------------------------------------------------------------------ events

    pub fn step(&mut self, ev: &Ev) -> StepOut {
        if self.dead {
            return StepOut::Dead;
        }
        let out = self.step_inner(ev);
        match &out {
            StepOut::Done => self.cnt.executed += 1,
            StepOut::Skipped(_) => self.cnt.skipped += 1,
            StepOut::Dead => {}
        }
        self.status_log.push(status_code(&out));
        self.digest.str(ev.kind());
        self.digest.u64(match &out {
            StepOut::Done => 1,
            StepOut::Skipped(_) => 2,
            StepOut::Dead => 3,
        });
        self.event_index += 1;
        out
    }

    fn post_plain(&mut self, what: &'static str) {
        // common monitors after an event that must not change gradients
        if self.cfg.monitors {
            let now = self.sweep_grads();
            self.check_grads_unchanged(&now, &BTreeSet::new(), what);
            self.commit_grads(now);
            self.check_immutability(None);
            self.check_flags(what);
        }
    }

    fn is_protected(&self, s: Slot) -> bool {
        self.node_of(s).map(|n| self.protected.contains(&n)).unwrap_or(false)
    }

    fn step_inner(&mut self, ev: &Ev) -> StepOut {
        let guarded = match ev {
            Ev::Pass { root, .. } => self.is_protected(*root),
            Ev::GradClear { slot, .. } | Ev::GradSet { slot, .. } => self.is_protected(*slot),
            Ev::Update { slots, opt, .. } => slots.iter().any(|s| self.is_protected(*s)) || opt.map(|o| self.train_opt_in_use == Some(o)).unwrap_or(false),
            Ev::Flag { slot, f } => matches!(f, FlagOp::Start | FlagOp::Tracked) && self.is_protected(*slot),
            Ev::FlagClone { src, f, .. } => matches!(f, FlagOp::Start | FlagOp::Tracked) && self.is_protected(*src),
            _ => false,
        };
        if guarded {
            return StepOut::Skipped("observers are read-only with respect to live model parameters");
        }
        match ev {
            Ev::Leaf { dst, dims, vals, mode } => {
                if dims.is_empty() || dims.iter().any(|d| *d == 0) || numel(dims) != vals.len() || !vals.iter().all(|v| v.is_finite()) {
                    return StepOut::Skipped("bad leaf");
                }
                let a = mk(dims, vals);
                let (a, tracked, keep, explicit) = match mode {
                    LeafMode::Plain => (a, false, false, Explicit::No),
                    LeafMode::Tracked => (a.tracked(), true, true, Explicit::Tracked),
                    LeafMode::Started => {
                        a.start_tracking();
                        (a, true, false, Explicit::No)
                    }
                };
                let vals_f: Vec<f64> = to_f64(a.values());
                let node = self.new_leaf_node(dims, &vals_f, "leaf");
                self.put(*dst, a, HInfo { node, tracked, keep, explicit });
                self.post_plain("leaf");
                StepOut::Done
            }
            Ev::Build { dst, op, args } => self.do_build(*dst, op, args),
            Ev::CondBuild { cond, thresh, dst, then, otherwise } => {
                if !self.live(*cond) {
                    return StepOut::Skipped("cond slot empty");
                }
                let c0 = {
                    let slots = self.sh.slots.borrow();
                    slots[*cond].as_ref().unwrap().values().first().map(|x| *x as f64).unwrap_or(0.0)
                };
                if c0 > *thresh {
                    self.do_build(*dst, &then.0, &then.1)
                } else {
                    self.do_build(*dst, &otherwise.0, &otherwise.1)
                }
            }
            Ev::Pass { root, seed, via_clone } => self.do_pass(*root, seed, *via_clone),
            Ev::GradRead { slot, via_clone } => {
                if !self.live(*slot) {
                    return StepOut::Skipped("slot empty");
                }
                let g = {
                    let slots = self.sh.slots.borrow();
                    let h = slots[*slot].as_ref().unwrap();
                    catch_unwind(AssertUnwindSafe(|| {
                        if *via_clone {
                            let c = h.clone();
                            let g = c.gradient().clone();
                            g
                        } else {
                            let g = h.gradient().clone();
                            g
                        }
                    }))
                };
                let g = match g {
                    Ok(g) => g,
                    Err(_) => {
                        let msg = crate::last_panic();
                        self.viol("C10", "gradient_read_panicked", "reading a gradient".into(), format!("gradient() panicked: {}", msg));
                        self.viol("C01", "gradient_read_panicked", "reading a gradient".into(), format!("gradient() panicked: {}", msg));
                        self.dead = true;
                        return StepOut::Dead;
                    }
                };
                if *via_clone {
                    self.fault("F2_read_through_clone");
                }
                let node = self.node_of(*slot).unwrap();
                self.obs_log.push(ObsRec { event: self.event_index, kind: "gradread", slot: *slot, obs: g.as_ref().map(Obs::of) });
                if let Some(g) = g {
                    // C03: shape of a stored gradient
                    if g.dimensions() != &self.g.nodes[node].dims[..] {
                        let class = self.shape_class(node);
                        self.viol("C03", "grad_shape", class, format!("gradient of node {} has dimensions {:?}, array has {:?}", node, g.dimensions(), self.g.nodes[node].dims));
                    }
                    // C09 item 5: stored gradients are plain untracked arrays
                    if self.cfg.monitors {
                        if read_flag(&g) {
                            self.viol("C09", "gradient_tracked", "stored gradient is tracked".into(), format!("gradient of node {} reads tracked=true", node));
                        } else {
                            let r = catch_unwind(AssertUnwindSafe(|| read_flag(&(&g * 2.0))));
                            if let Ok(true) = r {
                                self.viol("C09", "gradient_tracked", "operation on a stored gradient is tracked".into(), format!("node {}", node));
                            }
                        }
                    }
                    let snap = Obs::of(&g);
                    self.held.push(Held { arr: g, snap, what: "fetched gradient", node: None, tag: 0 });
                }
                self.post_plain("gradread");
                StepOut::Done
            }
            Ev::GradClear { slot, how } => {
                if !self.live(*slot) {
                    return StepOut::Skipped("slot empty");
                }
                let had = {
                    let slots = self.sh.slots.borrow();
                    let h = slots[*slot].as_ref().unwrap();
                    match how {
                        ClearHow::Replace => h.replace_gradient().is_some(),
                        ClearHow::MutTake => h.gradient_mut().take().is_some(),
                        ClearHow::MutNone => {
                            // exactly what a program writes; no read of the slot beforehand
                            *h.gradient_mut() = None;
                            true
                        }
                    }
                };
                if had {
                    self.fault("F6_gradient_cleared");
                }
                let node = self.node_of(*slot).unwrap();
                self.user_shaped.remove(&node);
                if self.cfg.monitors {
                    let now = self.sweep_grads();
                    let mut ex = BTreeSet::new();
                    ex.insert(node);
                    self.check_grads_unchanged(&now, &ex, "gradclear");
                    if now.get(&node).map(|g| g.is_some()).unwrap_or(false) {
                        self.viol("C10", "clear_ineffective", "gradient still present after clearing".into(), format!("node {}", node));
                    }
                    self.commit_grads(now);
                    self.check_immutability(None);
                    self.check_flags("gradclear");
                }
                StepOut::Done
            }
            Ev::GradSet { slot, vals, flat } => {
                if !self.live(*slot) {
                    return StepOut::Skipped("slot empty");
                }
                let node = self.node_of(*slot).unwrap();
                let nd = self.g.nodes[node].dims.clone();
                if vals.len() != numel(&nd) || !vals.iter().all(|v| v.is_finite()) {
                    return StepOut::Skipped("gradient of another element count");
                }
                let dims = if *flat { vec![vals.len()] } else { nd.clone() };
                if dims != nd {
                    self.user_shaped.insert(node);
                } else {
                    self.user_shaped.remove(&node);
                }
                {
                    let slots = self.sh.slots.borrow();
                    let h = slots[*slot].as_ref().unwrap();
                    *h.gradient_mut() = Some(mk(&dims, vals));
                }
                self.fault("F6_gradient_stored_by_the_user");
                if self.cfg.monitors {
                    let now = self.sweep_grads();
                    let mut ex = BTreeSet::new();
                    ex.insert(node);
                    self.check_grads_unchanged(&now, &ex, "gradset");
                    self.commit_grads(now);
                    self.check_immutability(None);
                    self.check_flags("gradset");
                }
                StepOut::Done
            }
            Ev::CloneTo { src, dst } => {
                if !self.live(*src) || src == dst {
                    return StepOut::Skipped("slot empty");
                }
                let (c, hi) = {
                    let slots = self.sh.slots.borrow();
                    (slots[*src].as_ref().unwrap().clone(), self.info[*src].clone().unwrap())
                };
                self.put(*dst, c, hi);
                self.post_plain("clone");
                StepOut::Done
            }
            Ev::DropSlot { slot } => {
                match self.take(*slot) {
                    None => return StepOut::Skipped("slot empty"),
                    Some((a, hi)) => {
                        // F1: is the node still reachable through a live graph?
                        let alive = self.g.alive(&self.handle_nodes());
                        if alive.contains(&hi.node) {
                            self.fault("F1_drop_while_referenced");
                        }
                        drop(a);
                    }
                }
                self.post_plain("drop");
                StepOut::Done
            }
            Ev::Swap { a, b } => {
                if !self.live(*a) || !self.live(*b) || a == b {
                    return StepOut::Skipped("slot empty");
                }
                self.sh.slots.borrow_mut().swap(*a, *b);
                self.info.swap(*a, *b);
                self.post_plain("swap");
                StepOut::Done
            }
            Ev::Rebind { slot } => {
                if !self.live(*slot) {
                    return StepOut::Skipped("slot empty");
                }
                {
                    let mut slots = self.sh.slots.borrow_mut();
                    let c = slots[*slot].as_ref().unwrap().clone();
                    slots[*slot] = Some(c);
                }
                self.fault("F3_rebind");
                self.post_plain("rebind");
                StepOut::Done
            }
            Ev::Flag { slot, f } => {
                if !self.live(*slot) {
                    return StepOut::Skipped("slot empty");
                }
                self.apply_flag(*slot, *f);
                self.fault("F7_flag_toggle");
                self.post_plain("flag");
                StepOut::Done
            }
            Ev::FlagClone { src, dst, f } => {
                if !self.live(*src) || src == dst {
                    return StepOut::Skipped("slot empty");
                }
                let (c, hi) = {
                    let slots = self.sh.slots.borrow();
                    (slots[*src].as_ref().unwrap().clone(), self.info[*src].clone().unwrap())
                };
                self.put(*dst, c, hi);
                self.apply_flag(*dst, *f);
                self.c09_toggled_alias = true;
                self.fault("F7_flag_toggle_on_clone");
                self.post_plain("flagclone");
                StepOut::Done
            }
            Ev::Update { slots, lr, opt, keep_stale } => self.do_update(slots, *lr, *opt, *keep_stale),
            Ev::Retire { slot } => self.do_retire(*slot),
            Ev::Refuse(r) => self.do_refuse(r),
            Ev::Nop | Ev::NewWorld { .. } => StepOut::Done,
            Ev::DropHeld => {
                self.held.clear();
                self.post_plain("dropheld");
                StepOut::Done
            }
            _ => StepOut::Skipped("training event outside a training span"),
        }
    }

    fn apply_flag(&mut self, slot: Slot, f: FlagOp) {
        let prev_shadow = self.info[slot].as_ref().unwrap().tracked;
        match f {
            FlagOp::Start | FlagOp::Stop => {
                let prev = {
                    let slots = self.sh.slots.borrow();
                    let h = slots[slot].as_ref().unwrap();
                    if f == FlagOp::Start {
                        h.start_tracking()
                    } else {
                        h.stop_tracking()
                    }
                };
                if prev != prev_shadow {
                    let n = self.info[slot].as_ref().unwrap().node;
                    self.viol("C09", "flag_return_value", "previous-flag return value".into(), format!("slot s{} node {}: returned {} but the flag was {}", slot, n, prev, prev_shadow));
                }
                self.info[slot].as_mut().unwrap().tracked = f == FlagOp::Start;
            }
            FlagOp::Tracked | FlagOp::Untracked => {
                let a = self.sh.slots.borrow_mut()[slot].take().unwrap();
                let a = if f == FlagOp::Tracked { a.tracked() } else { a.untracked() };
                self.sh.slots.borrow_mut()[slot] = Some(a);
                let hi = self.info[slot].as_mut().unwrap();
                hi.tracked = f == FlagOp::Tracked;
                hi.keep = f == FlagOp::Tracked;
                hi.explicit = if f == FlagOp::Tracked { Explicit::Tracked } else { Explicit::Untracked };
            }
        }
    }

    /// A short description of the shape situation of a node inside graphs (for violation classes).
    fn shape_class(&self, node: usize) -> String {
        // find a consumer that uses this node broadcast
        for (i, n) in self.g.nodes.iter().enumerate() {
            if n.has_graph {
                for e in &n.edges {
                    if e.node == node && e.tracked && self.g.nodes[node].dims != n.dims {
                        return format!("{} operand {:?} in result {:?}", n.op.as_ref().unwrap().name(), self.g.nodes[node].dims, self.g.nodes[i].dims);
                    }
                }
            }
        }
        format!("operand {:?}", self.g.nodes[node].dims)
    }

    fn do_build(&mut self, dst: Slot, op: &Op, args: &[Slot]) -> StepOut {
        if args.is_empty() || args.iter().any(|s| !self.live(*s)) {
            return StepOut::Skipped("operand slot empty");
        }
        if matches!(op, Op::Activation { act: Act::None, .. }) {
            return StepOut::Skipped("no activation: the closure would return the clone itself");
        }
        let mut his: Vec<HInfo> = args.iter().map(|s| self.info[*s].clone().unwrap()).collect();
        if let Op::Activation { detach: true, .. } = op {
            // the closure receives an untracked clone: nothing is recorded and nothing flows back
            for h in his.iter_mut() {
                h.tracked = false;
                h.keep = false;
                h.explicit = Explicit::Untracked;
            }
        }
        if matches!(op, Op::Stack { .. }) {
            // a constructor (or no operation at all on a clone): the result carries no graph of its own here
            for h in his.iter_mut() {
                h.tracked = false;
            }
        }
        let dims: Vec<Vec<usize>> = his.iter().map(|h| self.g.nodes[h.node].dims.clone()).collect();
        let dref: Vec<&[usize]> = dims.iter().map(|d| &d[..]).collect();
        let od = match refmodel::out_dims(op, &dref) {
            Some(d) => d,
            None => return StepOut::Skipped("inadmissible operands"),
        };
        if numel(&od) > 4096 {
            return StepOut::Skipped("too large");
        }
        let argv: Vec<(&[usize], &[f64])> = his.iter().map(|h| (&self.g.nodes[h.node].dims[..], &self.g.nodes[h.node].vals[..])).collect();
        if self.cfg.regime == Regime::Smooth || !matches!(op, Op::Relu | Op::Activation { act: Act::Relu, .. }) {
            if !refmodel::in_domain(op, &argv) {
                self.cnt.domain_guard += 1;
                return StepOut::Skipped("domain guard");
            }
        }
        if matches!(op, Op::Relu | Op::Activation { act: Act::Relu, .. }) && argv[0].1.iter().any(|x| *x == 0.0) {
            self.cnt.domain_guard += 1;
            return StepOut::Skipped("relu kink");
        }
        let want = refmodel::eval::<f64>(op, &argv);
        if !want.iter().all(|v| v.is_finite()) {
            self.cnt.domain_guard += 1;
            return StepOut::Skipped("non-finite reference value");
        }
        if want.iter().any(|v| v.abs() > exact_bound()) {
            self.cnt.magnitude_guard += 1;
            return StepOut::Skipped("magnitude guard");
        }
        if self.cfg.regime == Regime::Int {
            // every partial sum the kernel can form stays exactly representable
            let absv: Vec<Vec<refmodel::AbsF>> = argv.iter().map(|a| a.1.iter().map(|x| refmodel::AbsF(x.abs())).collect()).collect();
            let absa: Vec<(&[usize], &[refmodel::AbsF])> = argv.iter().zip(&absv).map(|(a, v)| (a.0, &v[..])).collect();
            let m = refmodel::eval::<refmodel::AbsF>(op, &absa);
            let k: u32 = argv.iter().map(|a| max_frac(a.1)).sum::<u32>() + op_const_frac(op);
            if m.iter().any(|x| !(x.0 * pow2(k) <= exact_bound())) {
                self.cnt.magnitude_guard += 1;
                return StepOut::Skipped("magnitude guard (partial sums)");
            }
        }
        let any_tracked = his.iter().any(|h| h.tracked);

        // Sum(0) returns a clone of the handle: same node.
        let uid = self.g.nodes.len();
        let res = {
            let slots = self.sh.slots.borrow();
            let hs: Vec<&Array> = args.iter().map(|s| slots[*s].as_ref().unwrap()).collect();
            let sh = self.sh.clone();
            catch_unwind(AssertUnwindSafe(|| world::apply_op(&sh, uid, dst, op, &hs, any_tracked)))
        };
        let arr = match res {
            Ok(a) => a,
            Err(_) => {
                self.cnt.unexpected_refusal += 1;
                self.post_plain("build");
                return StepOut::Skipped("operation refused admissible operands (forward kernel, not judged here)");
            }
        };
        // forward conformance (C04-C07 are not decided here: a nonconforming result is discarded)
        let got = to_f64(arr.values());
        let conform = arr.dimensions() == &od[..] && {
            let mag: Vec<f64> = vec![0.0; want.len()];
            let scale = want.iter().fold(0.0f64, |a, b| a.max(b.abs())) * 16.0;
            let saved = (self.cnt.exact_compares, self.cnt.tol_compares, self.cnt.max_err_over_tol);
            let ok = self.values_match(&got, &want, &mag, scale).is_ok();
            self.cnt.exact_compares = saved.0;
            self.cnt.tol_compares = saved.1;
            self.cnt.max_err_over_tol = saved.2;
            ok
        };
        if !conform {
            self.cnt.forward_nonconformance += 1;
            drop(arr);
            self.post_plain("build");
            return StepOut::Skipped("forward result does not conform to the reference (forward kernel, not judged here)");
        }
        if matches!(op, Op::Sum(0)) {
            let hi = his[0].clone();
            self.put(dst, arr, hi);
            self.post_plain("build");
            return StepOut::Done;
        }
        let has_graph = any_tracked;
        let alias = if matches!(op, Op::Reshape(_)) { self.g.nodes[his[0].node].alias } else { self.g.fresh_alias() };
        let edges: Vec<Edge> = his.iter().map(|h| Edge { node: h.node, tracked: h.tracked, keep: h.keep, explicit: h.explicit == Explicit::Tracked }).collect();
        let node = self.g.add(Node { op: Some(op.clone()), edges, has_graph, dims: od, vals: got.clone(), alias, origin: "result" });
        debug_assert_eq!(node, uid);
        if args.contains(&dst) {
            self.fault("F3_rebind");
        }
        self.obs_log.push(ObsRec { event: self.event_index, kind: "build", slot: dst, obs: Some(Obs::of(&arr)) });
        self.put(dst, arr, HInfo { node, tracked: has_graph, keep: has_graph, explicit: Explicit::No });
        self.post_plain("build");
        StepOut::Done
    }

    fn do_pass(&mut self, root: Slot, seed: &Seed, via_clone: bool) -> StepOut {
        if !self.live(root) {
            return StepOut::Skipped("root slot empty");
        }
        let rhi = self.info[root].clone().unwrap();
        let rn = rhi.node;
        let rdims = self.g.nodes[rn].dims.clone();
        let ne = numel(&rdims);
        let seed_vals: Vec<f64> = match seed {
            Seed::FromSlot(s) => {
                // only arrays without a graph of their own: a seed that carries a graph would make the stored
                // gradients keep that graph alive, which is the program's doing, not the library's
                match self.node_of(*s) {
                    Some(n) if self.g.nodes[n].dims == rdims && !self.g.nodes[n].has_graph => self.g.nodes[n].vals.clone(),
                    _ => return StepOut::Skipped("seed slot empty, of another shape, or a result with a graph"),
                }
            }
            Seed::None | Seed::Ones => vec![1.0; ne],
            Seed::Vals(v) => {
                if v.len() != ne || !v.iter().all(|x| x.is_finite()) {
                    return StepOut::Skipped("seed of another shape");
                }
                to_f64(&world::to_float(v))
            }
        };
        let reach = self.g.reach(rn);
        if reach.iter().any(|n| self.user_shaped.contains(n)) {
            return StepOut::Skipped("a reachable array holds a user-stored gradient of another shape");
        }
        let adj = if self.cfg.monitors || self.cfg.guard_mag { self.g.adjoints(rn, &seed_vals) } else { BTreeMap::new() };
        if self.cfg.monitors && reach.len() >= 6 && reach.len() <= 40 && self.event_index % 8 == 0 {
            // self-check of the harness: the edge-wise accumulation used for deep graphs agrees with
            // the pure forward-mode evaluation
            let alt = self.g.adjoints_edgewise(rn, &seed_vals);
            for (n, a) in &adj {
                let b = &alt[n];
                for i in 0..a.a.len() {
                    let tol = 1e4 * eps() * (a.mag[i] + b.mag[i] + 1.0);
                    if !((a.a[i] - b.a[i]).abs() <= tol) {
                        panic!("harness self-check failed: reference adjoints disagree at node {} element {}: {} vs {}", n, i, a.a[i], b.a[i]);
                    }
                }
            }
            self.cnt.reference_selfchecks += 1;
        }
        if (self.cfg.monitors || self.cfg.guard_mag) && self.cfg.regime == Regime::Int {
            // integer data stays exact iff every partial sum the pass can form is representable:
            // magnitude (with what is already stored) times the finest granularity of any term
            let bound = exact_bound();
            let k: u32 = reach.iter().map(|n| max_frac(&self.g.nodes[*n].vals) + self.g.nodes[*n].op.as_ref().map(op_const_frac).unwrap_or(0)).sum::<u32>() + max_frac(&seed_vals);
            let stored = self.observe_grads();
            let mut worst = 0.0f64;
            let mut kb = 0u32;
            for (n, a) in &adj {
                let b = stored.get(n).and_then(|v| v[0].1.as_ref()).map(|o| o.vals()).unwrap_or_default();
                kb = kb.max(max_frac(&b));
                let bmax = b.iter().fold(0.0f64, |x, y| x.max(y.abs()));
                let mmax = a.mag.iter().fold(0.0f64, |x, y| x.max(*y));
                worst = worst.max(bmax + mmax);
            }
            if !(worst * pow2(k + kb) <= bound) {
                self.cnt.magnitude_guard += 1;
                return StepOut::Skipped("adjoint magnitude guard");
            }
        }
        // coverage facts about this pass
        let mut pi = PassInfo { event: self.event_index, root: rn, reach: reach.iter().copied().collect(), via_clone, ..Default::default() };
        let fan = self.g.fan_in(&reach);
        pi.max_fan_in = fan.values().copied().max().unwrap_or(0);
        pi.root_is_leaf = !self.g.nodes[rn].has_graph;
        pi.overlapped_earlier = reach.iter().any(|n| *n != rn && self.passed_nodes.contains(n));
        for n in &reach {
            let nd = &self.g.nodes[*n];
            if nd.has_graph {
                if nd.op.as_ref().map(|o| o.is_custom()).unwrap_or(false) {
                    pi.custom_nodes += 1;
                }
                for e in &nd.edges {
                    if e.tracked {
                        pi.had_tracked_edge = true;
                    } else {
                        pi.had_untracked_edge = true;
                    }
                }
            }
        }
        {
            // another live consumer graph over the same leaves (not part of this pass)
            let alive = self.g.alive(&self.handle_nodes());
            pi.other_live_consumers = alive.iter().any(|n| {
                !reach.contains(n) && self.g.nodes[*n].has_graph && self.g.nodes[*n].edges.iter().any(|e| e.tracked && reach.contains(&e.node))
            });
        }
        pi.depth = reach.len();
        // broadcast arrival-order facts: for every node with >= 2 contributions, is the first-delivering a broadcast one?
        pi.bcast_first_later = self.bcast_orders(&reach, rn);

        let before: BTreeMap<usize, Option<Obs>> = if self.cfg.monitors { self.sweep_grads() } else { BTreeMap::new() };
        if self.cfg.monitors {
            // make sure nothing changed since the last event (cheap consistency of the monitor itself)
            self.check_grads_unchanged(&before, &BTreeSet::new(), "pre-pass");
        }

        if !self.cfg.silent {
            let slots = self.sh.slots.borrow();
            for (s, hi) in self.info.iter().enumerate() {
                if hi.is_some() {
                    let (g, p) = safe_grad(slots[s].as_ref().unwrap());
                    if p {
                        self.read_panics.set(self.read_panics.get() + 1);
                    }
                    self.obs_log.push(ObsRec { event: self.event_index, kind: "pass_before", slot: s, obs: g });
                }
            }
        }
        let log_start = self.sh.log.borrow().len();
        let seed_arr: Option<Array> = match seed {
            Seed::FromSlot(s) => {
                // the stored gradients may now share this array's buffer (and node): ownership probes of it
                // are no longer judged
                let n = self.node_of(*s).unwrap();
                let al = self.g.nodes[n].alias;
                self.seed_pinned_aliases.insert(al);
                self.fault("F2_seed_is_a_clone_of_a_live_array");
                let as_view = !self.info[*s].as_ref().map(|h| h.tracked).unwrap_or(true) && (root + *s) % 2 == 1;
                let slots = self.sh.slots.borrow();
                let h = slots[*s].as_ref().unwrap();
                // every other time as a fresh view of the array's storage instead of a clone of the handle
                Some(if as_view { h.reshape(h.dimensions().to_vec()) } else { h.clone().untracked() })
            }
            Seed::None => None,
            Seed::Ones => Some(mk(&rdims, &vec![1.0; ne])),
            Seed::Vals(v) => Some(mk(&rdims, v)),
        };
        if let (Some(s), false) = (&seed_arr, matches!(seed, Seed::FromSlot(_))) {
            let snap = Obs::of(s);
            self.held.push(Held { arr: s.clone(), snap, what: "seed", node: None, tag: 0 });
        }
        // bounded progress: a pass visits every node a bounded number of times (hook: step counter)
        let n_edges: usize = reach.iter().map(|n| if self.g.nodes[*n].has_graph { self.g.nodes[*n].edges.len() } else { 0 }).sum();
        let budget = 64 * (reach.len() + n_edges) as u64 + 4096;
        corgi::array::verif_hook::arm(budget);
        let res = {
            let slots = self.sh.slots.borrow();
            let h = slots[root].as_ref().unwrap();
            catch_unwind(AssertUnwindSafe(|| {
                if via_clone {
                    let c = h.clone();
                    c.backward(seed_arr);
                } else {
                    h.backward(seed_arr);
                }
            }))
        };
        let steps = corgi::array::verif_hook::steps();
        corgi::array::verif_hook::arm(0);
        pi.engine_steps = steps;
        pi.engine_size = (reach.len() + n_edges) as u64;
        if via_clone {
            self.fault("F2_pass_from_clone");
        }
        if pi.overlapped_earlier {
            self.fault("F4F5_pass_over_previously_differentiated_nodes");
        }
        if res.is_err() && crate::last_panic().contains("corgi_verif: step budget") {
            let class = self.pass_class(&reach);
            self.viol("C11", "engine_step_budget", class, format!("the pass made more than {} node visits for a graph of {} reachable nodes and {} edges: work is not proportional to nodes and edges", budget, reach.len(), n_edges));
            self.dead = true;
            self.passes.push(pi);
            return StepOut::Dead;
        }
        if res.is_err() {
            let class = self.pass_class(&reach);
            let msg = crate::last_panic();
            self.viol("C01", "pass_panicked", class.clone(), format!("backward panicked on an accepted program: {}", msg));
            if class.contains("broadcast") {
                self.viol("C03", "pass_panicked", class.clone(), format!("backward panicked while reducing a broadcast adjoint: {}", msg));
            }
            if pi.custom_nodes > 0 {
                // the derivative closures of the user nodes of this graph were not all invoked exactly once
                self.viol("C11", "pass_panicked", class, format!("backward panicked on a graph with {} user operation nodes: {}", pi.custom_nodes, msg));
            }
            self.dead = true;
            self.passes.push(pi);
            return StepOut::Dead;
        }
        for n in &reach {
            self.passed_nodes.insert(*n);
        }

        if self.cfg.monitors {
            let after = self.sweep_grads();
            let vmax = reach.iter().map(|n| self.g.nodes[*n].vals.iter().fold(0.0f64, |a, b| a.max(b.abs()))).fold(0.0f64, f64::max);
            let smax = seed_vals.iter().fold(0.0f64, |a, b| a.max(b.abs()));
            let fanin = fan;
            let mut mism: Vec<(usize, String, String, bool, bool)> = Vec::new();
            for (n, got) in &after {
                let prev = before.get(n).cloned().unwrap_or(None);
                if !reach.contains(n) {
                    if *got != prev {
                        self.viol("C09", "unreached_gradient_changed", "gradient outside the tracked sub-graph".into(), format!("node {} is not reachable from the root through tracked edges but its gradient slot changed", n));
                        if self.passed_nodes.contains(n) {
                            self.viol("C10", "unreached_gradient_changed", "gradient outside the tracked sub-graph".into(), format!("node {}", n));
                        }
                    }
                    continue;
                }
                let nd = self.g.nodes[*n].clone();
                let a = &adj[n];
                // which handles deliver: must the adjoint be stored?
                let must_store = if !nd.has_graph {
                    true
                } else if *n == rn {
                    rhi.keep && rhi.explicit != Explicit::Untracked
                } else {
                    let mut all = true;
                    let mut any = false;
                    for c in &reach {
                        let cd = &self.g.nodes[*c];
                        if cd.has_graph {
                            for e in &cd.edges {
                                if e.node == *n && e.tracked {
                                    any = true;
                                    if !(e.keep && e.explicit) {
                                        all = false;
                                    }
                                }
                            }
                        }
                    }
                    any && all
                };
                let broadcast_operand = reach.iter().any(|c| {
                    let cd = &self.g.nodes[*c];
                    cd.has_graph && cd.edges.iter().any(|e| e.node == *n && e.tracked && cd.dims != nd.dims && !matches!(cd.op, Some(Op::Reshape(_)) | Some(Op::Sum(_)) | Some(Op::Matmul { .. }) | Some(Op::Conv { .. })))
                        || cd.has_graph && matches!(cd.op, Some(Op::Matmul { .. })) && cd.edges.len() == 3 && cd.edges[2].node == *n && cd.edges[2].tracked && cd.dims != nd.dims
                });
                let class = {
                    let kinds: BTreeSet<&'static str> = reach
                        .iter()
                        .filter_map(|c| {
                            let cd = &self.g.nodes[*c];
                            if cd.has_graph && cd.edges.iter().any(|e| e.node == *n && e.tracked) {
                                Some(cd.op.as_ref().unwrap().name())
                            } else {
                                None
                            }
                        })
                        .collect();
                    format!("operand of {:?}{}{}", kinds, if broadcast_operand { " broadcast" } else { "" }, if fanin.get(n).copied().unwrap_or(0) >= 2 { " shared" } else { "" })
                };
                match got {
                    None => {
                        if prev.is_some() {
                            self.viol("C10", "gradient_lost", class.clone(), format!("node {} had a gradient before the pass and has none after", n));
                        } else if must_store {
                            let p = if *n == rn || !nd.has_graph { "C01" } else { "C10" };
                            self.viol(p, "gradient_missing", class.clone(), format!("node {} (reachable through tracked edges) has no gradient after the pass", n));
                            if *n != rn {
                                // an array that was tracked (a leaf, or explicitly `.tracked()`) when it was used
                                self.viol("C09", "gradient_missing", class.clone(), format!("node {} was tracked when it was used but received no gradient", n));
                            }
                        }
                    }
                    Some(g) => {
                        if g.dims != nd.dims {
                            self.viol("C03", "grad_shape", class.clone(), format!("gradient of node {} has dimensions {:?}, array has {:?}", n, g.dims, nd.dims));
                            self.viol("C01", "grad_shape", class.clone(), format!("gradient of node {} has dimensions {:?}, array has {:?}", n, g.dims, nd.dims));
                            continue;
                        }
                        let gv = g.vals();
                        let pv: Vec<f64> = match &prev {
                            Some(p) if p.dims == nd.dims => p.vals(),
                            Some(_) => continue, // reported earlier
                            None => vec![0.0; gv.len()],
                        };
                        let want: Vec<f64> = pv.iter().zip(&a.a).map(|(p, x)| p + x).collect();
                        let mag: Vec<f64> = pv.iter().zip(&a.mag).map(|(p, x)| p.abs() + x).collect();
                        let r = self.values_match(&gv, &want, &mag, vmax * smax.max(1.0));
                        if let Err(e) = r {
                            let unchanged = !must_store && Some(g.clone()) == prev;
                            if !unchanged {
                                mism.push((*n, class.clone(), e, broadcast_operand, prev.is_none()));
                            }
                        }
                    }
                }
            }
            // Of all value mismatches report the root-most node (largest id: ids are topological);
            // mismatches further down are consequences of the wrong adjoint delivered from there.
            if let Some((n, class, e, bc, first)) = mism.into_iter().max_by_key(|m| m.0) {
                // the same array consumed through a tracked and through an untracked handle inside this graph:
                // a wrong value there means the flags did not decide where the gradient went
                let mixed = reach.iter().any(|c| {
                    let cd = &self.g.nodes[*c];
                    cd.has_graph && cd.edges.iter().any(|e1| !e1.tracked && reach.iter().any(|c2| self.g.nodes[*c2].has_graph && self.g.nodes[*c2].edges.iter().any(|e2| e2.tracked && e2.node == e1.node)))
                });
                if mixed {
                    self.viol("C09", "mixed_handle_flow", class.clone(), format!("gradient of node {} in a graph that uses one array through tracked and untracked handles: {}", n, e));
                }
                if bc {
                    self.viol("C03", "broadcast_sum", class.clone(), format!("gradient of node {}: {}", n, e));
                }
                self.viol("C01", "grad_value", class.clone(), format!("gradient of node {}: {}", n, e));
                if !first {
                    self.viol("C10", "accumulation", class.clone(), format!("gradient of node {} after a further pass: {}", n, e));
                }
            }
            // C11: the invocation log of user closures
            self.check_invocations(log_start, &reach, &adj, rn, &mut pi);
            self.commit_grads(after);
            let touched: BTreeSet<usize> = reach.iter().map(|n| self.g.nodes[*n].alias).collect();
            self.check_immutability(Some(&touched));
            self.check_flags("pass");
            let nested_wrong = self.sh.reent.borrow().nested_wrong;
            if nested_wrong > 0 {
                self.viol("C01", "nested_pass", "pass on a disjoint graph from inside a derivative closure".into(), "nested pass produced wrong gradients".into());
                self.sh.reent.borrow_mut().nested_wrong = 0;
            }
        }
        // relational observation: what this pass left on every live handle
        if !self.cfg.silent {
            let slots = self.sh.slots.borrow();
            for (s, hi) in self.info.iter().enumerate() {
                if hi.is_some() {
                    let (g, p) = safe_grad(slots[s].as_ref().unwrap());
                    if p {
                        self.read_panics.set(self.read_panics.get() + 1);
                    }
                    self.obs_log.push(ObsRec { event: self.event_index, kind: "pass_after", slot: s, obs: g });
                }
            }
        }
        self.passes.push(pi);
        StepOut::Done
    }

    /// For every node that receives >= 2 contributions in this pass: does a broadcast contribution
    /// arrive first / later? (coverage of C03's two code paths). Returns (bcast_first, bcast_later).
    fn bcast_orders(&self, reach: &BTreeSet<usize>, _root: usize) -> (bool, bool) {
        // Delivery order is an implementation matter; as a proxy: a node with >= 2 tracked uses of
        // which at least one is broadcast and the uses are split over >= 2 consumers or positions.
        let mut first = false;
        let mut later = false;
        let mut uses: BTreeMap<usize, Vec<bool>> = BTreeMap::new();
        for c in reach.iter().rev() {
            let cd = &self.g.nodes[*c];
            if cd.has_graph {
                for e in &cd.edges {
                    if e.tracked {
                        let b = self.g.nodes[e.node].dims != cd.dims && matches!(cd.op, Some(Op::Add) | Some(Op::Sub) | Some(Op::Mul) | Some(Op::Div) | Some(Op::Axpy(_)) | Some(Op::Matmul { .. }));
                        uses.entry(e.node).or_default().push(b);
                    }
                }
            }
        }
        for (_, u) in uses {
            if u.len() >= 2 && u.iter().any(|b| *b) {
                if u[0] {
                    first = true;
                }
                if u[1..].iter().any(|b| *b) {
                    later = true;
                }
            }
        }
        (first, later)
    }

    fn pass_class(&self, reach: &BTreeSet<usize>) -> String {
        let mut ops: BTreeSet<&'static str> = BTreeSet::new();
        let mut bc = false;
        for n in reach {
            let nd = &self.g.nodes[*n];
            if nd.has_graph {
                ops.insert(nd.op.as_ref().unwrap().name());
                for e in &nd.edges {
                    if e.tracked && self.g.nodes[e.node].dims != nd.dims && !matches!(nd.op, Some(Op::Reshape(_)) | Some(Op::Sum(_)) | Some(Op::Conv { .. })) {
                        if !matches!(nd.op, Some(Op::Matmul { .. })) || nd.edges.len() == 3 && std::ptr::eq(e, &nd.edges[2]) {
                            bc = true;
                        }
                    }
                }
            }
        }
        format!("ops {:?}{}", ops, if bc { " broadcast" } else { "" })
    }

    fn check_invocations(&mut self, log_start: usize, reach: &BTreeSet<usize>, adj: &BTreeMap<usize, crate::shadow::Adjoint>, _root: usize, pi: &mut PassInfo) {
        let log: Vec<world::Invocation> = self.sh.log.borrow()[log_start..].to_vec();
        pi.invocations = log.len();
        let mut by: BTreeMap<usize, Vec<&world::Invocation>> = BTreeMap::new();
        for inv in &log {
            by.entry(inv.uid).or_default().push(inv);
        }
        let custom_in_reach: Vec<usize> = reach.iter().copied().filter(|n| self.g.nodes[*n].has_graph && self.g.nodes[*n].op.as_ref().map(|o| o.is_custom()).unwrap_or(false)).collect();
        let fan = self.g.fan_in(reach);
        let mut v: Vec<(&'static str, String, String)> = Vec::new();
        for n in &custom_in_reach {
            let shared = fan.get(n).copied().unwrap_or(0) >= 2;
            let class = format!("{}{}", self.g.nodes[*n].op.as_ref().unwrap().name(), if shared { " shared" } else { "" });
            match by.get(n) {
                None => v.push(("invoked_never", class, format!("derivative of node {} was not invoked", n))),
                Some(list) => {
                    if list.len() != 1 {
                        v.push(("invoked_more_than_once", class.clone(), format!("derivative of node {} was invoked {} times in one pass", n, list.len())));
                    }
                    let inv = list[0];
                    let nd = self.g.nodes[*n].clone();
                    if inv.seed_dims != nd.dims {
                        v.push(("seed_shape", class.clone(), format!("node {} received a seed of dimensions {:?}, node has {:?}", n, inv.seed_dims, nd.dims)));
                    } else {
                        let a = &adj[n];
                        let seed = inv.seed.clone();
                        if let Err(e) = self.values_match(&seed, &a.a, &a.mag, 0.0) {
                            v.push(("incomplete_adjoint", class.clone(), format!("node {} received {:?}, its complete adjoint is {:?}: {}", n, inv.seed, a.a, e)));
                        }
                    }
                    // happens-after: every consumer inside the graph was invoked before
                    for c in &custom_in_reach {
                        let cd = &self.g.nodes[*c];
                        if cd.edges.iter().any(|e| e.node == *n && e.tracked) {
                            if let Some(cl) = by.get(c) {
                                if cl[0].seq > inv.seq {
                                    v.push(("before_consumer", class.clone(), format!("node {} was differentiated before its consumer {}", n, c)));
                                }
                            }
                        }
                    }
                    // C08: arrays recorded inside graphs still show their operands' values
                    for (k, (cd, cb)) in inv.children.iter().enumerate() {
                        let on = nd.edges[k].node;
                        if let Some(snap) = self.snaps.get(&on) {
                            if *cd != snap.dims || *cb != snap.bits {
                                self.viol("C08", "recorded_operand_changed", "array recorded inside a graph".into(), format!("operand {} of node {} differs from its snapshot", k, n));
                            }
                        }
                    }
                }
            }
        }
        for (uid, list) in &by {
            if !custom_in_reach.contains(uid) {
                v.push(("invoked_unreachable", "custom".into(), format!("derivative of node {} (not reachable through tracked edges) was invoked {} times", uid, list.len())));
            }
        }
        if log.len() > custom_in_reach.len() {
            v.push(("work_budget", "custom".into(), format!("{} invocations for {} reachable user nodes", log.len(), custom_in_reach.len())));
        }
        for (m, class, d) in v {
            self.viol("C11", m, class, d);
        }
    }

    fn do_update(&mut self, slots: &[Slot], lr: f64, opt: Option<usize>, keep_stale: bool) -> StepOut {
        let mut uniq = BTreeSet::new();
        if slots.is_empty() || slots.iter().any(|s| !self.live(*s) || !uniq.insert(*s)) {
            return StepOut::Skipped("parameter slot empty or repeated");
        }
        // parameters are leaves here (the optimizer replaces handles; using results as parameters is not a modelled use)
        let before_obs: Vec<(Obs, Option<Obs>, bool)> = {
            let sl = self.sh.slots.borrow();
            slots
                .iter()
                .map(|s| {
                    let h = sl[*s].as_ref().unwrap();
                    let (g, p) = safe_grad(h);
                    if p {
                        self.read_panics.set(self.read_panics.get() + 1);
                    }
                    (Obs::of(h), g, read_flag(h))
                })
                .collect()
        };
        // a persistent optimizer object keeps the learning rate it was created with
        let (gd, lr): (Rc<GradientDescent>, f64) = match opt {
            None => (Rc::new(GradientDescent::new(lr as Float)), lr),
            Some(id) => {
                let e = self.optimizers.entry(id).or_insert_with(|| (Rc::new(GradientDescent::new(lr as Float)), lr));
                if Rc::strong_count(&e.0) > 1 || self.train_phase >= 2 && false {
                    // in use by an open model session
                }
                (e.0.clone(), e.1)
            }
        };
        if opt.is_some() {
            self.fault("F9_persistent_optimizer_object");
        }
        // keep the stale handles (F10) as held observations
        if keep_stale {
            let sl = self.sh.slots.borrow();
            for s in slots {
                let h = sl[*s].as_ref().unwrap();
                let node = self.info[*s].as_ref().unwrap().node;
                let snap = Obs::of(h);
                self.held.push(Held { arr: h.clone(), snap, what: "stale parameter handle", node: Some(node), tag: 0 });
            }
        }
        let res = {
            let mut sl = self.sh.slots.borrow_mut();
            let mut params: Vec<&mut Array> = Vec::new();
            let mut rest: &mut [Option<Array>] = &mut sl[..];
            let mut base = 0usize;
            // slots may be in any order: collect mutable references by sorting, then permute back
            let mut order: Vec<(usize, usize)> = slots.iter().copied().enumerate().map(|(i, s)| (s, i)).collect();
            order.sort();
            let mut refs: Vec<(usize, &mut Array)> = Vec::new();
            for (s, i) in order {
                let (_, tail) = rest.split_at_mut(s - base);
                let (head, tail2) = tail.split_at_mut(1);
                refs.push((i, head[0].as_mut().unwrap()));
                rest = tail2;
                base = s + 1;
            }
            refs.sort_by_key(|r| r.0);
            for (_, r) in refs {
                params.push(r);
            }
            catch_unwind(AssertUnwindSafe(|| gd.update(params)))
        };
        self.cnt.updates += 1;
        if res.is_err() {
            self.viol("C13", "update_panicked", "update".into(), format!("GradientDescent::update panicked: {}", crate::last_panic()));
            self.dead = true;
            return StepOut::Dead;
        }
        // a parameter holds no gradient if its slot is empty - or if an earlier parameter of the list is
        // another handle of the same array and has consumed the shared gradient already
        let list_nodes: Vec<usize> = slots.iter().map(|s| self.info[*s].as_ref().unwrap().node).collect();
        let frozen: Vec<bool> = before_obs.iter().enumerate().map(|(k, b)| b.1.is_none() || list_nodes[..k].contains(&list_nodes[k])).collect();
        if (0..slots.len()).any(|k| list_nodes[..k].contains(&list_nodes[k])) {
            self.fault("F9_parameter_listed_twice_through_clones");
        }
        let nfrozen_mid = frozen.iter().enumerate().any(|(i, f)| *f && i + 1 < frozen.len() && frozen[i + 1..].iter().any(|x| !*x));
        let shapes: BTreeSet<&Vec<usize>> = before_obs.iter().map(|b| &b.0.dims).collect();
        if nfrozen_mid {
            self.cnt.updates_frozen_middle += 1;
            self.fault("F9_frozen_parameter_not_last");
        }
        if slots.len() >= 3 && shapes.len() >= 2 && nfrozen_mid {
            self.c13_nontrivial += 1;
        }
        // judge each parameter from the pre-update observation
        let lr_f = lr as Float;
        let mut ex = BTreeSet::new();
        let mut old_nodes: Vec<(usize, bool)> = Vec::new();
        for (k, s) in slots.iter().enumerate() {
            let (old, g, flag) = &before_obs[k];
            let old_node = self.info[*s].as_ref().unwrap().node;
            self.user_shaped.remove(&old_node);
            ex.insert(old_node);
            old_nodes.push((old_node, frozen[k]));
            let (now, now_g, now_flag) = {
                let sl = self.sh.slots.borrow();
                let h = sl[*s].as_ref().unwrap();
                let (g, p) = safe_grad(h);
                if p {
                    self.read_panics.set(self.read_panics.get() + 1);
                }
                (Obs::of(h), g, read_flag(h))
            };
            let class = format!("param {} of {} dims {:?} frozen {:?}", k, slots.len(), old.dims, frozen);
            let alias_frozen = frozen[k] && g.is_some();
            let eff_g = if frozen[k] { &None } else { g };
            match eff_g {
                None => {
                    // (a later alias of an updated parameter: its shared gradient was consumed through the earlier handle)
                    if now != *old || (now_g.is_some() && !alias_frozen) || now_flag != *flag {
                        self.viol("C13", "frozen_parameter_changed", class, format!("parameter s{} holds no gradient but was changed by update", s));
                    }
                }
                Some(g) => {
                    if now.dims != old.dims {
                        self.viol("C13", "parameter_shape", class.clone(), format!("parameter s{} changed dimensions {:?} -> {:?}", s, old.dims, now.dims));
                    } else if g.dims != old.dims && g.bits.len() != old.bits.len() {
                        // a gradient of another element count than its array: C03's business, the step is undefined
                    } else {
                        let ov = old.vals();
                        let gv = g.vals();
                        let nv = now.vals();
                        for j in 0..ov.len() {
                            let step = (lr_f as f64) * gv[j];
                            let want = ov[j] - step;
                            let tol = 4.0 * eps() * (ov[j].abs() + step.abs()) + 1e-300;
                            if !((nv[j] - want).abs() <= tol) {
                                self.viol("C13", "step_value", class.clone(), format!("parameter s{} element {}: old {} lr {} grad {} -> new {} (want {})", s, j, ov[j], lr, gv[j], nv[j], want));
                                break;
                            }
                        }
                    }
                    if !now_flag {
                        self.viol("C13", "parameter_untracked", class.clone(), format!("parameter s{} is not tracked after update", s));
                    }
                    if now_g.is_some() {
                        self.viol("C13", "gradient_not_cleared", class.clone(), format!("parameter s{} still holds a gradient after update", s));
                    }
                    // shadow: a new leaf node replaces the handle
                    let nvals = now.vals();
                    let node = self.new_leaf_node(&now.dims, &nvals, "updated parameter");
                    self.snaps.insert(node, now.clone());
                    self.info[*s] = Some(HInfo { node, tracked: true, keep: true, explicit: Explicit::Tracked });
                    self.fault("F10_stale_handle_created");
                }
            }
        }
        if self.cfg.monitors {
            let now = self.sweep_grads();
            // stale handles: their gradient slot was emptied by update
            for (n, fr) in &old_nodes {
                if let Some(Some(_)) = now.get(n) {
                    if !*fr {
                        self.viol("C13", "gradient_not_cleared", "stale handle".into(), format!("old handle of node {} still holds the consumed gradient", n));
                    }
                }
            }
            self.check_grads_unchanged(&now, &ex, "update");
            self.commit_grads(now);
            let touched: BTreeSet<usize> = ex.iter().map(|n| self.g.nodes[*n].alias).collect();
            self.check_immutability(Some(&touched));
            self.check_flags("update");
        }
        StepOut::Done
    }

    fn do_retire(&mut self, slot: Slot) -> StepOut {
        let (arr, hi) = match self.take(slot) {
            None => return StepOut::Skipped("slot empty"),
            Some(x) => x,
        };
        let l = hi.node;
        let handles = self.handle_nodes();
        // conservative: any live handle that is this node or has it in its dataflow ancestry
        let lalias = self.g.nodes[l].alias;
        let mut pinned_cons = handles.contains(&l) || self.g.ancestry(l).iter().any(|a| self.g.nodes[*a].alias == lalias);
        for h in &handles {
            if self.g.nodes[*h].alias == lalias || self.g.ancestry(*h).iter().any(|a| *a == l || self.g.nodes[*a].alias == lalias) {
                pinned_cons = true;
            }
        }
        // own ancestry sharing the buffer (a reshape view of something still alive)
        let anc_alias_alive = {
            let alive = self.g.alive(&handles);
            // the retired handle itself keeps its own operands alive (a tracked reshape view shares its operand's buffer)
            let own = self.g.alive(&[l]);
            alive.iter().any(|n| self.g.nodes[*n].alias == lalias) || own.iter().any(|n| *n != l && self.g.nodes[*n].alias == lalias)
        };
        // precise: who can actually hold the value buffer
        let pinned_precise = anc_alias_alive;
        let stored_grad = self.grad_obs.get(&l).map(|g| g.is_some()).unwrap_or(false);
        let was_passed = self.passed_nodes.contains(&l);
        let res = catch_unwind(AssertUnwindSafe(move || {
            let v: Vec<Float> = Vec::from(arr);
            v.len()
        }));
        self.obs_log.push(ObsRec { event: self.event_index, kind: if res.is_ok() { "retire_ok" } else { "retire_panic" }, slot, obs: None });
        let class = format!("{}{}", self.g.nodes[l].origin, if was_passed { " differentiated" } else { "" });
        // an input batch (or a view sharing its buffer) is held by the model's retained output graph
        let model_pinned = self.model_pins.iter().any(|(n, it)| {
            *it != u64::MAX && self.g.nodes[*n].alias == self.g.nodes[l].alias && (self.model_output_iter == Some(*it) || self.held.iter().any(|h| h.tag == *it && h.what == "kept model output"))
        });
        let protected_alias = self.protected.iter().any(|n| self.g.nodes[*n].alias == self.g.nodes[l].alias);
        let seed_pinned = self.seed_pinned_aliases.contains(&self.g.nodes[l].alias);
        if self.protected.contains(&l) || protected_alias || model_pinned || seed_pinned {
            // a live model parameter seen through an observer's handle: the layer holds it too
            match res {
                Ok(_) => self.cnt.retire_control_ok += 1,
                Err(_) => self.cnt.retire_control_panics += 1,
            }
        } else if self.g.nodes[l].has_graph {
            // the property speaks about arrays from which results were derived; a result with its own
            // graph may legitimately share its buffer with its own derivative closure: control only
            match res {
                Ok(_) => self.cnt.retire_control_ok += 1,
                Err(_) => self.cnt.retire_control_panics += 1,
            }
        } else if !pinned_cons {
            if was_passed && stored_grad || was_passed && self.held.iter().any(|h| h.what == "fetched gradient") || self.model_pins.contains_key(&l) {
                self.c18_nontrivial += 1;
            }
            match res {
                Ok(_) => self.cnt.retire_ok += 1,
                Err(_) => self.viol("C18", "buffer_still_shared", class, format!("every result derived from node {} was dropped, yet Vec::from(handle) panicked: something still shares its buffer", l)),
            }
        } else if !pinned_precise {
            // derived results exist but none of them may reference the buffer (untracked operands, C09)
            match res {
                Ok(_) => self.cnt.retire_ok += 1,
                Err(_) => self.viol("C09", "untracked_result_keeps_reference", class, format!("node {} is only an operand of untracked results, yet its buffer is still shared", l)),
            }
        } else {
            match res {
                Ok(_) => self.cnt.retire_control_ok += 1,
                Err(_) => self.cnt.retire_control_panics += 1,
            }
        }
        if !self.handle_nodes().contains(&l) {
            self.grad_obs.remove(&l);
        }
        self.post_plain("retire");
        StepOut::Done
    }

    fn do_refuse(&mut self, r: &Refuse) -> StepOut {
        let res = match r {
            Refuse::Elementwise(a, b) => {
                if !self.live(*a) || !self.live(*b) {
                    return StepOut::Skipped("slot empty");
                }
                let da = &self.g.nodes[self.node_of(*a).unwrap()].dims;
                let db = &self.g.nodes[self.node_of(*b).unwrap()].dims;
                if refmodel::broadcast_dims(da, db).is_some() {
                    return StepOut::Skipped("shapes are compatible");
                }
                let sl = self.sh.slots.borrow();
                let (x, y) = (sl[*a].as_ref().unwrap(), sl[*b].as_ref().unwrap());
                catch_unwind(AssertUnwindSafe(|| {
                    let _ = x + y;
                }))
            }
            Refuse::MatmulInner(a, b) => {
                if !self.live(*a) || !self.live(*b) {
                    return StepOut::Skipped("slot empty");
                }
                let da = &self.g.nodes[self.node_of(*a).unwrap()].dims;
                let db = &self.g.nodes[self.node_of(*b).unwrap()].dims;
                if da.len() < 2 || db.len() < 2 || da[da.len() - 1] == db[db.len() - 2] {
                    return StepOut::Skipped("inner dimensions match");
                }
                let sl = self.sh.slots.borrow();
                let (x, y) = (sl[*a].as_ref().unwrap(), sl[*b].as_ref().unwrap());
                catch_unwind(AssertUnwindSafe(|| {
                    let _ = Array::matmul((x, false), (y, false), None);
                }))
            }
            Refuse::ReshapeCount(a, d) => {
                if !self.live(*a) {
                    return StepOut::Skipped("slot empty");
                }
                let da = &self.g.nodes[self.node_of(*a).unwrap()].dims;
                if d.is_empty() || numel(d) == numel(da) {
                    return StepOut::Skipped("same element count");
                }
                let sl = self.sh.slots.borrow();
                let x = sl[*a].as_ref().unwrap();
                let d = d.clone();
                catch_unwind(AssertUnwindSafe(|| {
                    let _ = x.reshape(d);
                }))
            }
            Refuse::ZeroDim(d) => {
                if !d.iter().any(|x| *x == 0) {
                    return StepOut::Skipped("no zero dimension");
                }
                let d = d.clone();
                catch_unwind(AssertUnwindSafe(|| {
                    let _ = Array::from(d);
                }))
            }
        };
        match res {
            Err(_) => {
                self.cnt.refused_as_expected += 1;
                self.fault("F8_refused_operation");
            }
            Ok(_) => self.cnt.refused_not += 1,
        }
        self.post_plain("refuse");
        StepOut::Done
    }

    /// Final digest of the run (events, observations, verdicts; no addresses, no times).
    pub fn finish_digest(&mut self) -> u64 {
        let mut d = self.digest;
        for r in &self.obs_log {
            d.u64(r.event as u64);
            d.str(r.kind);
            d.u64(r.slot as u64);
            if let Some(o) = &r.obs {
                d.usizes(&o.dims);
                for b in &o.bits {
                    d.u64(*b);
                }
            }
        }
        for (n, g) in &self.grad_obs {
            d.u64(*n as u64);
            if let Some(o) = g {
                d.usizes(&o.dims);
                for b in &o.bits {
                    d.u64(*b);
                }
            }
        }
        for v in &self.violations {
            d.str(v.prop);
            d.str(v.monitor);
            d.u64(v.event as u64);
        }
        d.u64(self.cnt.executed);
        d.u64(self.cnt.skipped);
        d.0
    }
}
