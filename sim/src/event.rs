//! The explicit event vocabulary. A trace is a list of events with literal shapes and values;
//! replay executes the list and never consults the PRNG. Every event is total: if its
//! precondition does not hold in the current world it is recorded as skipped.

use serde::{Deserialize, Serialize};

pub type Slot = usize;

fn yes() -> bool {
    true
}

/// Re-entrancy actions executed *inside* a custom derivative closure while a pass is in flight (F11).
#[derive(Clone, Debug, Serialize, Deserialize, PartialEq)]
pub enum Reent {
    /// forward operations on the (temporarily un-tracked) children and on the received seed
    FwdOnChildren,
    /// read the gradient of an unrelated slot (clone it, drop it)
    ReadGrad(Slot),
    /// clone a handle in a slot and drop the clone again
    CloneDrop(Slot),
    /// build a fresh, disjoint little graph and run a complete pass on it
    NestedPass,
    /// format the operands and the received adjoint with `{:?}` (logging from inside a closure)
    DebugFormat,
}

#[derive(Clone, Debug, Serialize, Deserialize, PartialEq)]
pub enum CustomKind {
    /// out = sum_i coef[i] * x_i (all operands of one shape)
    Lin,
    /// out = x0 (.) x1 (same shape)
    Prod2,
    /// the same product, but the user's forward closure is written with the library's own
    /// arithmetic on the operands (`|x| x[0] * x[1]`), so its result already carries a graph
    Prod2Crate,
    /// out = x (.) x ; the derivative is obtained by a nested autodiff pass on a fresh graph
    NestedSq,
    /// out = x0 (.) x1 through `Array::op(.., None)`: the forward closure uses the library's own
    /// arithmetic and the user supplies no derivative (differentiation goes through the built-in graph)
    CrateFwdNoBwd,
}

#[derive(Clone, Debug, Serialize, Deserialize, PartialEq)]
pub enum Op {
    Add,
    Sub,
    Mul,
    Div,
    Axpy(f64),
    Neg,
    Scale(f64),
    Powf(f64),
    Ln,
    Exp,
    Recip,
    Relu,
    Sigmoid,
    Softmax,
    Sum(usize),
    Reshape(Vec<usize>),
    /// args: a, b and optionally the additive term
    Matmul { ta: bool, tb: bool },
    /// args: image, filters
    Conv { sr: usize, sc: usize },
    /// user-defined operation through `Array::op`; `uid` labels the node in the invocation log
    Custom { kind: CustomKind, coef: Vec<f64>, script: Vec<Reent> },
    /// the library's cost closures applied to (output, target) as ordinary differentiable operations
    Cost(CostKind),
    /// the library's activation closures (`activation::relu()` etc., which take their argument by
    /// value) applied to a clone of the operand; `detach`: the clone is `.untracked()` first
    Activation { act: Act, detach: bool },
    /// `Array::from(Vec<Array>)` over clones (or same-shape reshape views) of the operands: a plain,
    /// untracked array holding the stacked values
    Stack { views: bool },
}

impl Op {
    pub fn name(&self) -> &'static str {
        match self {
            Op::Add => "add",
            Op::Sub => "sub",
            Op::Mul => "mul",
            Op::Div => "div",
            Op::Axpy(_) => "axpy",
            Op::Neg => "neg",
            Op::Scale(_) => "scale",
            Op::Powf(_) => "powf",
            Op::Ln => "ln",
            Op::Exp => "exp",
            Op::Recip => "reciprocal",
            Op::Relu => "relu",
            Op::Sigmoid => "sigmoid",
            Op::Softmax => "softmax",
            Op::Sum(_) => "sum",
            Op::Reshape(_) => "reshape",
            Op::Matmul { .. } => "matmul",
            Op::Conv { .. } => "conv",
            Op::Custom { kind: CustomKind::Lin, .. } => "custom_lin",
            Op::Custom { kind: CustomKind::Prod2, .. } => "custom_prod2",
            Op::Custom { kind: CustomKind::Prod2Crate, .. } => "custom_prod2_crate_forward",
            Op::Custom { kind: CustomKind::NestedSq, .. } => "custom_nestedsq",
            Op::Custom { kind: CustomKind::CrateFwdNoBwd, .. } => "op_without_derivative_closure",
            Op::Activation { detach: false, .. } => "activation_closure",
            Op::Activation { detach: true, .. } => "activation_closure_on_untracked_clone",
            Op::Stack { .. } => "stack",
            Op::Cost(CostKind::Mse) => "cost_mse",
            Op::Cost(CostKind::CrossEntropy) => "cost_cross_entropy",
        }
    }
    /// operations whose derivative is a logging user closure
    pub fn is_custom(&self) -> bool {
        matches!(self, Op::Custom { .. }) && !matches!(self, Op::Custom { kind: CustomKind::CrateFwdNoBwd, .. })
    }
    /// Operations whose result shares the operand's value buffer.
    pub fn aliases_operand(&self) -> bool {
        matches!(self, Op::Reshape(_) | Op::Sum(0))
    }
}

#[derive(Clone, Copy, Debug, Serialize, Deserialize, PartialEq)]
pub enum LeafMode {
    /// plain constructor result (untracked)
    Plain,
    /// `.tracked()`
    Tracked,
    /// `start_tracking()` on the plain array (tracked, but not marked to keep gradients explicitly)
    Started,
}

#[derive(Clone, Debug, Serialize, Deserialize, PartialEq)]
pub enum Seed {
    None,
    Ones,
    Vals(Vec<f64>),
    /// an (untracked) clone of the handle in this slot, e.g. `w.backward(Some(w.clone()))` to inject a
    /// weight-decay term
    FromSlot(Slot),
}

#[derive(Clone, Copy, Debug, Serialize, Deserialize, PartialEq)]
pub enum ClearHow {
    Replace,
    MutTake,
    MutNone,
}

#[derive(Clone, Copy, Debug, Serialize, Deserialize, PartialEq)]
pub enum FlagOp {
    Start,
    Stop,
    Tracked,
    Untracked,
}

#[derive(Clone, Debug, Serialize, Deserialize, PartialEq)]
pub enum Refuse {
    /// element-wise add of two live slots whose shapes are not broadcast-compatible
    Elementwise(Slot, Slot),
    /// matmul of two live slots with mismatching inner dimension
    MatmulInner(Slot, Slot),
    /// reshape to another element count
    ReshapeCount(Slot, Vec<usize>),
    /// constructor with a zero dimension
    ZeroDim(Vec<usize>),
}

#[derive(Clone, Copy, Debug, Serialize, Deserialize, PartialEq)]
pub enum Act {
    None,
    Relu,
    Sigmoid,
    Softmax,
}

#[derive(Clone, Copy, Debug, Serialize, Deserialize, PartialEq)]
pub enum CostKind {
    Mse,
    CrossEntropy,
}

#[derive(Clone, Debug, Serialize, Deserialize, PartialEq)]
pub enum LayerSpec {
    Dense { inp: usize, out: usize, act: Act, w: Vec<f64>, b: Vec<f64> },
    /// filters: [count, depth, fr, fc]
    Conv { count: usize, depth: usize, fr: usize, fc: usize, sr: usize, sc: usize, act: Act, w: Vec<f64>, b: Vec<f64> },
}

#[derive(Clone, Debug, Serialize, Deserialize, PartialEq)]
pub enum Ev {
    Leaf { dst: Slot, dims: Vec<usize>, vals: Vec<f64>, mode: LeafMode },
    Build { dst: Slot, op: Op, args: Vec<Slot> },
    /// data-dependent control flow: `if cond[0] > thresh { then } else { otherwise }`
    CondBuild { cond: Slot, thresh: f64, dst: Slot, then: (Op, Vec<Slot>), otherwise: (Op, Vec<Slot>) },
    Pass { root: Slot, seed: Seed, via_clone: bool },
    GradRead { slot: Slot, via_clone: bool },
    GradClear { slot: Slot, how: ClearHow },
    /// the user stores a gradient of their own through `gradient_mut()` (e.g. a clipped one);
    /// `flat`: as a rank-1 array of the same element count instead of the array's own shape
    GradSet { slot: Slot, vals: Vec<f64>, flat: bool },
    CloneTo { src: Slot, dst: Slot },
    DropSlot { slot: Slot },
    Swap { a: Slot, b: Slot },
    /// `x = x.clone()` (the old handle is dropped)
    Rebind { slot: Slot },
    Flag { slot: Slot, f: FlagOp },
    /// `dst = src.clone()` followed by the flag operation on `dst` only
    FlagClone { src: Slot, dst: Slot, f: FlagOp },
    /// `opt`: a persistent optimizer object (created on first use with `lr`); None = a fresh one.
    /// `keep_stale`: keep clones of the old handles as observers (F10).
    Update { slots: Vec<Slot>, lr: f64, #[serde(default)] opt: Option<usize>, #[serde(default = "yes")] keep_stale: bool },
    /// move the handle out of the slot and probe sole ownership with `Vec::<Float>::from`
    Retire { slot: Slot },
    Refuse(Refuse),
    /// drop every held observation (fetched gradients, seeds, kept outputs)
    DropHeld,
    /// placeholder that keeps event indices aligned in forks
    Nop,
    /// the following events run in a brand-new world on the same thread (used to replay state that
    /// the code under test leaks from one run into the next, e.g. through a thread-local)
    NewWorld {
        #[serde(default)]
        smooth: bool,
    },

    // ---- training (C14); nesting: TrainOpen > ModelOpen > {Fwd, Bwd, Upd} ----
    TrainOpen { layers: Vec<LayerSpec>, cost: CostKind, lr: f64, #[serde(default)] opt: Option<usize> },
    ModelOpen,
    /// `input_slot`: keep a handle of the input batch in this slot (to probe its release later)
    Fwd { dims: Vec<usize>, vals: Vec<f64>, keep_output: bool, twice: bool, #[serde(default)] input_slot: Option<Slot> },
    /// start/stop tracking on a layer's own parameter handle (only legal between model sessions)
    Freeze { layer: usize, param: usize, on: bool },
    /// `target_slot`: keep a handle of the target in this slot (to probe its release later)
    Bwd { dims: Vec<usize>, vals: Vec<f64>, #[serde(default)] target_slot: Option<Slot> },
    Upd,
    ModelClose,
    TrainClose,
    /// put clones of the current parameter handles into slots (only legal between model sessions)
    TakeParams { dst: Vec<Slot> },
}

impl Ev {
    pub fn kind(&self) -> &'static str {
        match self {
            Ev::Leaf { .. } => "leaf",
            Ev::Build { .. } => "build",
            Ev::CondBuild { .. } => "condbuild",
            Ev::Pass { .. } => "pass",
            Ev::GradRead { .. } => "gradread",
            Ev::GradClear { .. } => "gradclear",
            Ev::GradSet { .. } => "gradset",
            Ev::CloneTo { .. } => "clone",
            Ev::DropSlot { .. } => "drop",
            Ev::Swap { .. } => "swap",
            Ev::Rebind { .. } => "rebind",
            Ev::Flag { .. } => "flag",
            Ev::FlagClone { .. } => "flagclone",
            Ev::Update { .. } => "update",
            Ev::Retire { .. } => "retire",
            Ev::Refuse(_) => "refuse",
            Ev::DropHeld => "dropheld",
            Ev::Nop => "nop",
            Ev::NewWorld { .. } => "newworld",
            Ev::TrainOpen { .. } => "trainopen",
            Ev::ModelOpen => "modelopen",
            Ev::Fwd { .. } => "fwd",
            Ev::Freeze { .. } => "freeze",
            Ev::Bwd { .. } => "bwd",
            Ev::Upd => "upd",
            Ev::ModelClose => "modelclose",
            Ev::TrainClose => "trainclose",
            Ev::TakeParams { .. } => "takeparams",
        }
    }
}

/// A trace together with what is needed to re-execute and re-judge it.
#[derive(Clone, Debug, Serialize, Deserialize)]
pub struct Replay {
    pub format: u32,
    pub property: String,
    pub monitor: String,
    pub class: String,
    pub base_seed: u64,
    pub profile: String,
    pub run_index: u64,
    pub build: String,
    pub regime: String,
    pub events: Vec<Ev>,
    pub failing_event: usize,
    pub detail: String,
    pub corgi_rev: String,
    /// extra, check-specific payload (e.g. the perturbed trace of C12, seeds of C17)
    #[serde(default)]
    pub extra: serde_json::Value,
}
