//! C19: the single-precision build. Two halves:
//!  (a) native: the f32 binary runs the seeded histories of every claimed property with all
//!      monitors (absolute, structural and relational) - done by `runner::check("C19")` in that binary;
//!  (b) cross-build: the f64 process generates integer-data histories (guards at the f32 bound),
//!      both binaries execute the same explicit traces and their complete observation logs
//!      (event statuses, shapes, values, gradients, ownership probes) must be identical.

use crate::event::Ev;
use crate::gen::{profile, Gen};
use crate::rng::{derive, Fnv};
use crate::runner::{ev_compact, regime_name, verif_root, workers};
use crate::sim::{Regime, Sim, SimCfg};
use serde_json::json;
use std::io::{BufRead, BufReader, Write};
use std::process::{Command, Stdio};
use std::sync::atomic::{AtomicU64, Ordering};
use std::sync::{Arc, Mutex};
use std::time::Instant;

pub fn cross_digest(sim: &Sim) -> u64 {
    let mut h = Fnv::default();
    h.bytes(&sim.status_log);
    for r in &sim.obs_log {
        h.u64(r.event as u64);
        h.str(r.kind);
        h.u64(r.slot as u64);
        match &r.obs {
            None => h.u64(0),
            Some(o) => {
                h.usizes(&o.dims);
                for b in &o.bits {
                    // -0.0 and 0.0 are the same value
                    let v = f64::from_bits(*b);
                    h.u64(if v == 0.0 { 0 } else { *b });
                }
            }
        }
    }
    h.0
}

pub fn cross_log(sim: &Sim) -> serde_json::Value {
    json!({
        "status": sim.status_log,
        "obs": sim.obs_log.iter().map(|r| json!({"event": r.event, "kind": r.kind, "slot": r.slot,
            "dims": r.obs.as_ref().map(|o| o.dims.clone()), "vals": r.obs.as_ref().map(|o| o.vals())})).collect::<Vec<_>>(),
    })
}

/// Structure only (event statuses, kinds of observation incl. ownership-probe outcomes, shapes): what
/// must not depend on the float width even when the values are not exactly representable.
pub fn structural_digest(sim: &Sim) -> u64 {
    let mut h = Fnv::default();
    h.bytes(&sim.status_log);
    for r in &sim.obs_log {
        h.u64(r.event as u64);
        h.str(r.kind);
        h.u64(r.slot as u64);
        match &r.obs {
            None => h.u64(0),
            Some(o) => h.usizes(&o.dims),
        }
    }
    h.0
}

pub fn structural_log(sim: &Sim) -> serde_json::Value {
    json!({
        "status": sim.status_log,
        "obs": sim.obs_log.iter().map(|r| json!({"event": r.event, "kind": r.kind, "slot": r.slot, "dims": r.obs.as_ref().map(|o| o.dims.clone())})).collect::<Vec<_>>(),
    })
}

pub fn run_trace_smooth(events: &[Ev]) -> Sim {
    let mut sim = Sim::new(SimCfg { regime: Regime::Smooth, monitors: false, guard_mag: false, silent: false });
    let mut src = crate::train::ListSource { evs: events, i: 0 };
    let mut rec = Vec::new();
    crate::train::drive(&mut sim, &mut src, &mut rec);
    sim
}

/// Worker loop of the f32 binary: `D <trace json>` -> digest, `L <trace json>` -> full log.
pub fn worker() -> i32 {
    let stdin = std::io::stdin();
    let stdout = std::io::stdout();
    for line in stdin.lock().lines() {
        let line = match line {
            Ok(l) => l,
            Err(_) => break,
        };
        if line.len() < 2 {
            continue;
        }
        let (cmd, rest) = line.split_at(2);
        let evs: Vec<Ev> = match serde_json::from_str(rest) {
            Ok(e) => e,
            Err(e) => {
                let mut o = stdout.lock();
                let _ = writeln!(o, "ERR {}", e);
                let _ = o.flush();
                continue;
            }
        };
        let mut o = stdout.lock();
        if cmd == "S " || cmd == "T " {
            let sim = run_trace_smooth(&evs);
            if cmd == "S " {
                let _ = writeln!(o, "{:016x}", structural_digest(&sim));
            } else {
                let _ = writeln!(o, "{}", structural_log(&sim));
            }
            let _ = o.flush();
            continue;
        }
        let sim = run_trace_guarded(&evs);
        if cmd == "D " {
            let _ = writeln!(o, "{:016x}", cross_digest(&sim));
        } else {
            let _ = writeln!(o, "{}", cross_log(&sim));
        }
        let _ = o.flush();
    }
    0
}

/// Integer regime, monitors off, adjoint-magnitude guard on: the configuration both builds use.
pub fn run_trace_guarded(events: &[Ev]) -> Sim {
    let mut sim = Sim::new(SimCfg { regime: Regime::Int, monitors: false, guard_mag: true, silent: false });
    let mut src = crate::train::ListSource { evs: events, i: 0 };
    let mut rec = Vec::new();
    crate::train::drive(&mut sim, &mut src, &mut rec);
    sim
}

fn f32_exe() -> String {
    format!("{}/sim/target-f32/release/corgisim", verif_root())
}

struct Child {
    child: std::process::Child,
    stdin: std::process::ChildStdin,
    stdout: BufReader<std::process::ChildStdout>,
}

impl Child {
    fn spawn() -> Option<Child> {
        let mut child = Command::new(f32_exe()).arg("c19-worker").stdin(Stdio::piped()).stdout(Stdio::piped()).spawn().ok()?;
        let stdin = child.stdin.take()?;
        let stdout = BufReader::new(child.stdout.take()?);
        Some(Child { child, stdin, stdout })
    }
    fn ask(&mut self, cmd: &str, trace: &str) -> Option<String> {
        writeln!(self.stdin, "{}{}", cmd, trace).ok()?;
        self.stdin.flush().ok()?;
        let mut s = String::new();
        self.stdout.read_line(&mut s).ok()?;
        Some(s.trim().to_string())
    }
}

pub struct CrossOut {
    pub runs: u64,
    pub compared_events: u64,
    pub compared_observations: u64,
    pub nontrivial: u64,
    pub mismatches: Vec<(String, u64, u64, Vec<Ev>, String)>,
    pub harness_errors: u64,
    pub sample: Option<serde_json::Value>,
    pub structural_runs: u64,
    pub structural_diverged_by_guard: u64,
}

fn first_difference(a: &serde_json::Value, b: &serde_json::Value) -> String {
    let (sa, sb) = (a["status"].as_array().cloned().unwrap_or_default(), b["status"].as_array().cloned().unwrap_or_default());
    for i in 0..sa.len().max(sb.len()) {
        if sa.get(i) != sb.get(i) {
            return format!("event {}: status {:?} on the f64 build, {:?} on the f32 build (1 done, 2 skipped, 3 panicked pass, 4 harness guard, 5 refused by corgi)", i, sa.get(i), sb.get(i));
        }
    }
    let (oa, ob) = (a["obs"].as_array().cloned().unwrap_or_default(), b["obs"].as_array().cloned().unwrap_or_default());
    for i in 0..oa.len().max(ob.len()) {
        if oa.get(i) != ob.get(i) {
            return format!("observation {}: f64 build {} / f32 build {}", i, oa.get(i).map(|x| x.to_string()).unwrap_or_default(), ob.get(i).map(|x| x.to_string()).unwrap_or_default());
        }
    }
    "digests differ but the logs are equal (sign of zero?)".to_string()
}

/// Cross-build comparison on integer-data histories. Runs in the f64 process.
pub fn cross(base: u64, nruns: u64, wall_cap_s: f64) -> CrossOut {
    crate::sim::FORCE_F32_BOUND.store(true, Ordering::Relaxed);
    let start = Instant::now();
    let profiles = ["C01", "C03", "C09", "C10", "C11", "C13", "C18", "C12"];
    let counter = Arc::new(AtomicU64::new(0));
    let out = Arc::new(Mutex::new(CrossOut { runs: 0, compared_events: 0, compared_observations: 0, nontrivial: 0, mismatches: vec![], harness_errors: 0, sample: None, structural_runs: 0, structural_diverged_by_guard: 0 }));
    let mut hs = Vec::new();
    for _ in 0..workers() {
        let counter = counter.clone();
        let out = out.clone();
        hs.push(
            std::thread::Builder::new()
                .stack_size(512 << 20)
                .spawn(move || {
                    let mut child = match Child::spawn() {
                        Some(c) => c,
                        None => {
                            out.lock().unwrap().harness_errors += 1;
                            return;
                        }
                    };
                    let mut local = CrossOut { runs: 0, compared_events: 0, compared_observations: 0, nontrivial: 0, mismatches: vec![], harness_errors: 0, sample: None, structural_runs: 0, structural_diverged_by_guard: 0 };
                    loop {
                        let i = counter.fetch_add(1, Ordering::Relaxed);
                        if i >= nruns || start.elapsed().as_secs_f64() > wall_cap_s {
                            break;
                        }
                        let pname = profiles[(i % profiles.len() as u64) as usize];
                        let seed = derive(base, &format!("C19x/{}", pname), i);
                        if (i / profiles.len() as u64) % 4 == 3 {
                            // structural comparison on non-integer data
                            let mut p = profile(pname);
                            p.smooth_pct = 100;
                            let mut gen = Gen::new(seed, p);
                            let mut sim = Sim::new(SimCfg { regime: Regime::Smooth, monitors: false, guard_mag: false, silent: false });
                            let mut trace = Vec::new();
                            crate::train::drive(&mut sim, &mut gen, &mut trace);
                            let tj = serde_json::to_string(&trace).unwrap();
                            let d32 = match child.ask("S ", &tj) {
                                Some(s) => s,
                                None => {
                                    local.harness_errors += 1;
                                    break;
                                }
                            };
                            local.structural_runs += 1;
                            if d32 != format!("{:016x}", structural_digest(&sim)) {
                                let l32: serde_json::Value = child.ask("T ", &tj).and_then(|s| serde_json::from_str(&s).ok()).unwrap_or(json!({}));
                                let l64 = structural_log(&sim);
                                // a harness guard (domain, magnitude, conformance tolerance) that decides differently on
                                // f32-rounded values is not a property of corgi: stop comparing that run
                                let (sa, sb) = (l64["status"].as_array().cloned().unwrap_or_default(), l32["status"].as_array().cloned().unwrap_or_default());
                                let first = (0..sa.len().max(sb.len())).find(|k| sa.get(*k) != sb.get(*k));
                                let by_guard = match first {
                                    Some(k) => {
                                        let a = sa.get(k).and_then(|x| x.as_u64()).unwrap_or(0);
                                        let b = sb.get(k).and_then(|x| x.as_u64()).unwrap_or(0);
                                        a == 4 || b == 4 || a == 5 || b == 5
                                    }
                                    None => false,
                                };
                                let branchy = trace.iter().any(|e| matches!(e, Ev::CondBuild { .. }));
                                if by_guard || (first.is_none() && branchy) {
                                    local.structural_diverged_by_guard += 1;
                                } else {
                                    let diff = first_difference(&l64, &l32);
                                    if !diff.starts_with("digests differ") {
                                        local.mismatches.push((format!("{}~smooth", pname), i, seed, trace, diff));
                                    }
                                }
                            }
                            continue;
                        }
                        let mut p = profile(pname);
                        p.smooth_pct = 0;
                        p.integer_only = true;
                        let mut gen = Gen::new(seed, p);
                        let mut sim = Sim::new(SimCfg { regime: Regime::Int, monitors: false, guard_mag: true, silent: false });
                        let mut trace = Vec::new();
                        crate::train::drive(&mut sim, &mut gen, &mut trace);
                        let d64 = cross_digest(&sim);
                        let tj = serde_json::to_string(&trace).unwrap();
                        let d32 = match child.ask("D ", &tj) {
                            Some(s) => s,
                            None => {
                                local.harness_errors += 1;
                                break;
                            }
                        };
                        local.runs += 1;
                        local.compared_events += sim.status_log.len() as u64;
                        local.compared_observations += sim.obs_log.len() as u64;
                        if !sim.passes.is_empty() {
                            local.nontrivial += 1;
                        }
                        if local.sample.is_none() && !sim.passes.is_empty() && trace.len() <= 30 {
                            local.sample = Some(json!({"profile": pname, "run": i, "seed": seed, "regime": regime_name(Regime::Int), "cross_build": true,
                                "digest_f64": format!("{:016x}", d64), "digest_f32": d32, "events": trace.iter().map(ev_compact).collect::<Vec<_>>()}));
                        }
                        if d32 != format!("{:016x}", d64) {
                            let l32: serde_json::Value = child.ask("L ", &tj).and_then(|s| serde_json::from_str(&s).ok()).unwrap_or(json!({}));
                            let l64 = cross_log(&sim);
                            let diff = first_difference(&l64, &l32);
                            if diff.starts_with("digests differ") {
                                continue;
                            }
                            local.mismatches.push((pname.to_string(), i, seed, trace, diff));
                        }
                    }
                    drop(child.stdin);
                    let _ = child.child.wait();
                    let mut o = out.lock().unwrap();
                    o.runs += local.runs;
                    o.compared_events += local.compared_events;
                    o.compared_observations += local.compared_observations;
                    o.nontrivial += local.nontrivial;
                    o.harness_errors += local.harness_errors;
                    o.structural_runs += local.structural_runs;
                    o.structural_diverged_by_guard += local.structural_diverged_by_guard;
                    o.mismatches.extend(local.mismatches);
                    if o.sample.is_none() {
                        o.sample = local.sample;
                    }
                })
                .unwrap(),
        );
    }
    for h in hs {
        h.join().unwrap();
    }
    crate::sim::FORCE_F32_BOUND.store(false, Ordering::Relaxed);
    let mut o = Arc::try_unwrap(out).ok().unwrap().into_inner().unwrap();
    o.mismatches.sort_by(|a, b| (a.0.as_str(), a.1).cmp(&(b.0.as_str(), b.1)));
    o
}

/// Re-judges a cross-build replay: returns the first difference, if any.
pub fn cross_replay(events: &[Ev]) -> Result<Option<String>, String> {
    cross_replay_mode(events, false)
}

pub fn cross_replay_mode(events: &[Ev], structural: bool) -> Result<Option<String>, String> {
    if structural {
        let sim = run_trace_smooth(events);
        let mut child = Child::spawn().ok_or("cannot start the f32 binary")?;
        let tj = serde_json::to_string(events).unwrap();
        let l32: serde_json::Value = child.ask("T ", &tj).and_then(|s| serde_json::from_str(&s).ok()).ok_or("no answer from the f32 binary")?;
        drop(child.stdin);
        let _ = child.child.wait();
        let l64 = structural_log(&sim);
        if l64 == l32 {
            return Ok(None);
        }
        return Ok(Some(first_difference(&l64, &l32)));
    }
    crate::sim::FORCE_F32_BOUND.store(true, Ordering::Relaxed);
    let sim = run_trace_guarded(events);
    crate::sim::FORCE_F32_BOUND.store(false, Ordering::Relaxed);
    let mut child = Child::spawn().ok_or("cannot start the f32 binary")?;
    let tj = serde_json::to_string(events).unwrap();
    let l32: serde_json::Value = child.ask("L ", &tj).and_then(|s| serde_json::from_str(&s).ok()).ok_or("no answer from the f32 binary")?;
    let d32 = child.ask("D ", &tj).ok_or("no answer from the f32 binary")?;
    drop(child.stdin);
    let _ = child.child.wait();
    if d32 == format!("{:016x}", cross_digest(&sim)) {
        return Ok(None);
    }
    let diff = first_difference(&cross_log(&sim), &l32);
    if diff.starts_with("digests differ") {
        Ok(None)
    } else {
        Ok(Some(diff))
    }
}
