#!/usr/bin/env python3
"""Confirm a delivered mutant myself, in a scratch worktree outside /repo and /verif:
 (1) patch applies, corgi's own suite passes with it (69 unit + 11 doc tests),
 (2) the demonstration fails with it, (3) the demonstration passes without it.
usage: tools/seedverify.py <worktree> <mutant-dir> [...]   -> prints one JSON line per mutant
"""
import json, os, shutil, subprocess, sys

def sh(cmd, cwd):
    return subprocess.run(cmd, shell=True, cwd=cwd, capture_output=True, text=True)

FEAT = os.environ.get("FEATURES", "")  # e.g. "--features f32": the demo (and the suite, additionally) run with it

def main():
    wt = sys.argv[1]
    for d in sys.argv[2:]:
        name = os.path.basename(d.rstrip("/"))
        out = {"name": name}
        sh("git checkout -- . && rm -rf tests", wt)
        r = sh(f"git apply {d}/patch.diff", wt)
        out["applies"] = r.returncode == 0
        if r.returncode != 0:
            out["error"] = r.stderr[:300]
            print(json.dumps(out), flush=True)
            continue
        t = sh("cargo test --offline 2>&1 | grep -E '^test result'", wt)
        lines = t.stdout.strip().splitlines()
        out["suite_with_mutant"] = lines
        out["suite_passes"] = len(lines) >= 2 and all("ok." in l and " 0 failed" in l for l in lines) and "69 passed" in lines[0]
        if FEAT:
            ok2 = False
            for _ in range(4):  # the f32 suite has a randomised test that fails ~13% of the time on the unmodified tree too
                t = sh(f"cargo test --offline {FEAT} 2>&1 | grep -E '^test result'", wt)
                l2 = t.stdout.strip().splitlines()
                out["suite_with_mutant_features"] = l2
                if len(l2) >= 2 and all("ok." in l and " 0 failed" in l for l in l2):
                    ok2 = True
                    break
            out["suite_passes"] = out["suite_passes"] and ok2
        os.makedirs(os.path.join(wt, "tests"), exist_ok=True)
        shutil.copy(os.path.join(d, "demo.rs"), os.path.join(wt, "tests", "demo_x.rs"))
        t = sh(f"cargo test --offline {FEAT} --test demo_x 2>&1 | grep -E '^test result|^error\\[' | head -3", wt)
        out["demo_with_mutant"] = t.stdout.strip()
        out["demo_fails_with_mutant"] = "FAILED" in t.stdout
        sh("git checkout -- .", wt)
        t = sh(f"cargo test --offline {FEAT} --test demo_x 2>&1 | grep -E '^test result|^error\\[' | head -3", wt)
        out["demo_without_mutant"] = t.stdout.strip()
        out["demo_passes_without"] = "ok." in t.stdout and "FAILED" not in t.stdout
        sh("rm -rf tests", wt)
        out["confirmed"] = bool(out["applies"] and out["suite_passes"] and out["demo_fails_with_mutant"] and out["demo_passes_without"])
        print(json.dumps(out), flush=True)

if __name__ == "__main__":
    main()
