#!/usr/bin/env python3
"""Sensitivity self-test: apply each mutant diff to /repo (never committed), run the quick checks,
revert. Reports which checks catch which mutant, and whether the mutant passes corgi's own tests.

usage: tools/mutants.py [--dir selftest/mutants] [--checks C01,C03,...] [--scale 0.5] [--tests] [name-substring ...]
"""
import argparse, glob, json, os, subprocess, sys, time

REPO = os.environ.get("REPO", "/repo")
ROOT = os.path.dirname(os.path.dirname(os.path.abspath(__file__)))
ALL = ["C01", "C03", "C08", "C09", "C10", "C11", "C12", "C13", "C14", "C17", "C18", "C19"]

def sh(cmd, **kw):
    return subprocess.run(cmd, shell=True, capture_output=True, text=True, **kw)

def main():
    ap = argparse.ArgumentParser()
    ap.add_argument("--dir", default=os.path.join(ROOT, "selftest/mutants"))
    ap.add_argument("--checks", default=",".join(ALL))
    ap.add_argument("--scale", default="0.5")
    ap.add_argument("--tests", action="store_true", help="also run corgi's own test suite on the mutant")
    ap.add_argument("--out", default="")
    ap.add_argument("--auto-c19", action="store_true", help="run the C19 check only for changes whose name starts with c19_ (it needs the second, f32 build)")
    ap.add_argument("--own", action="store_true", help="run only the check of the property named by the change's prefix (c01_... -> C01)")
    ap.add_argument("names", nargs="*")
    a = ap.parse_args()
    checks = [c for c in a.checks.split(",") if c]
    manifest = json.load(open(os.path.join(ROOT, "MANIFEST.json")))
    claimed = {c["property_id"] for c in manifest["checks"]}
    checks = [c for c in checks if c in claimed]
    diffs = sorted(glob.glob(os.path.join(a.dir, "*.diff")) + glob.glob(os.path.join(a.dir, "*", "patch.diff")))
    if a.names:
        diffs = [d for d in diffs if any(n in d for n in a.names)]
    assert sh(f"git -C {REPO} status --porcelain -- src").stdout.strip() == "", "/repo has uncommitted changes"
    rows = []
    env = dict(os.environ, VERIF_RUNS_SCALE=a.scale)
    for d in diffs:
        name = os.path.basename(os.path.dirname(d)) if d.endswith("patch.diff") else os.path.basename(d)[:-5]
        r = sh(f"git -C {REPO} apply {d}")
        if r.returncode != 0:
            rows.append((name, "DOES NOT APPLY", {}))
            print(name, "does not apply:", r.stderr.strip()[:200])
            continue
        try:
            tests = ""
            if a.tests:
                t = sh(f"cd {REPO} && cargo test --offline 2>&1 | grep -E '^test result' | head -1")
                tests = t.stdout.strip()
            res = {}
            for c in checks:
                if a.auto_c19 and c == "C19" and not name.startswith("c19_"):
                    continue
                if a.own and not name.lower().startswith(c.lower() + "_"):
                    continue
                t0 = time.time()
                r = subprocess.run(f"{ROOT}/bin/check {c} quick", shell=True, capture_output=True, text=True, env=env)
                v = [l for l in r.stdout.splitlines() if l.startswith("VIOLATION")]
                res[c] = (r.returncode, len(v), round(time.time() - t0, 1))
            caught = [c for c, x in res.items() if x[0] == 1]
            errs = [c for c, x in res.items() if x[0] not in (0, 1)]
            rows.append((name, tests, res))
            print(f"{name:55s} caught by {caught or 'NONE'}" + (f"  harness-errors {errs}" if errs else "") + (f"  [{tests}]" if tests else ""), flush=True)
        finally:
            sh(f"git -C {REPO} checkout -- .")
    sh(f"rm -f {ROOT}/replays/*.json")
    if a.out:
        json.dump([{"mutant": n, "tests": t, "results": r} for n, t, r in rows], open(a.out, "w"), indent=1)

if __name__ == "__main__":
    main()
