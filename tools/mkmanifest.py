#!/usr/bin/env python3
"""Writes /verif/MANIFEST.json. Edit CLAIMED / NOT_APPLICABLE here, then run this script."""
import json, os, sys

ROOT = os.path.dirname(os.path.dirname(os.path.abspath(__file__)))

TECH = "deterministic simulation with fault injection: seeded multi-actor histories over shared corgi handles, "

CLAIMED = {
    "C01": dict(cat="exploration", ref="DESIGN.md §6 C01, §5.2",
        text="Seeded search over interleaved multi-actor histories (builders, differ, lifetime, flagger, gradient users, re-entrant user closures) ending in backward passes; after every pass every live handle's gradient increment is compared with an independent forward-mode (dual-number) reference restricted to tracked edges, exactly on integer data. Decides the engine half of the property (every path counted once whatever else is alive or happened before); evidence, not proof.",
        note="Trusted: the reference interpreter and shadow graph (naive loops + dual numbers), the INT-regime exactness argument, tolerance K*eps*Mag in the SMOOTH regime. Operation-by-operation Jacobians for all parameterisations are C02 (not applicable to this family); forward results that do not conform are discarded and counted.",
        tech=TECH + "dual-number reference oracle after every pass"),
    "C03": dict(cat="exploration", ref="DESIGN.md §6 C03",
        text="Histories in which broadcast operands are consumed several times (first/later arrival of the broadcast contribution both counted), across passes and optimizer updates; invariant after every pass: every present gradient has its array's dimensions and equals the summed adjoint (exact, integer data).",
        note="Trusted: reference broadcasting semantics (right-aligned), shadow graph. Delivery order inside a pass is steered only through operand/construction order.",
        tech=TECH + "shape invariant and exact summed-adjoint oracle after every pass"),
    "C08": dict(cat="exploration", ref="DESIGN.md §6 C08",
        text="After every event of every history the dimensions and bit patterns of every live handle and every held observation (clones, reshape views, fetched gradients, seeds, stale parameter handles, operands recorded in graphs as seen by user closures) are compared with their first-seen snapshot.",
        note="Trusted: the snapshot bookkeeping. In safe Rust without interior mutability around values the property holds by construction; the monitor exists for changes that add unsafe/in-place paths.",
        tech=TECH + "bitwise alias snapshots checked after every event"),
    "C09": dict(cat="exploration", ref="DESIGN.md §6 C09",
        text="Flag-toggle-heavy histories (tracked/untracked/start/stop on handles and clones, before use, between use and pass, between passes); structural oracle: result tracked iff some operand handle tracked, flags of every live handle after every event equal the shadow's flag state machine, unreachable nodes keep their gradient slot, gradients are untracked arrays, operands of untracked results are released.",
        note="Trusted: the flag state machine in the shadow; flags are read through the documented return value of stop_tracking.",
        tech=TECH + "flag state machine and edge-flag reference checked after every event"),
    "C10": dict(cat="exploration", ref="DESIGN.md §6 C10, §5.1",
        text="Pass schedules (same root again, roots sharing sub-graphs, interior then enclosing, clears and drops in between, refused operations, re-entrant closures) over shared graphs; oracle: per pass the deposit on every node equals the deposit of the same pass run alone in a fork (the real engine replaying the construction events only), bitwise, plus the absolute reference increment and 'no event other than pass/clear/update changes a gradient'.",
        note="Trusted: fork = replay of the explicit trace without other passes/clears (construction is deterministic); reference interpreter for the absolute half.",
        tech=TECH + "relational oracle: each pass against its solo replay on the real engine"),
    "C11": dict(cat="exploration", ref="DESIGN.md §6 C11",
        text="Graphs built from logging user closures (diamonds, k-fold fan-out, self-products, self-average chains up to depth 1024 with 2^1024 paths, operand permutations, re-entrant scripts); history check over the invocation log of each pass: exactly once, after all in-graph consumers, received seed equals the complete adjoint (exact), at most one invocation per reachable node (bounded work). Additionally every DAG of up to 3 (thorough: 4) user nodes with arity 1-3 over one leaf is enumerated exhaustively with a pass from every node, and the step-counter hook bounds the node visits of every pass (64 x (nodes+edges) + 4096), which turns an exponential pass into a reported violation instead of a hang.",
        note="Trusted: the closure log (global sequence numbers), the reference adjoint. The hook (cargo feature corgi_verif, commit 48d91e0) counts node visits of built-in and user nodes alike; its budget is the only verdict that depends on a hook, everything else uses the public API.",
        tech=TECH + "history check over the recorded derivative-invocation log"),
    "C13": dict(cat="exploration", ref="DESIGN.md §6 C13",
        text="Optimizer updates inside interleaved histories: parameter lists of 1-6 leaves of mixed shapes, which of them hold a gradient is whatever the preceding schedule produced (frozen ones anywhere), repeated updates through fresh and through persistent optimizer objects (shared with training spans), stale-handle reuse; oracle: per-parameter step from the pre-update observation, tracked, gradient cleared, frozen untouched, old handles intact.",
        note="Trusted: the pre-update observation; step tolerance 4 eps (|old|+|lr*g|) so that FMA/reassociation is not flagged.",
        tech=TECH + "per-parameter step oracle from the pre-update observation"),
    "C12": dict(cat="fault_enumeration", ref="DESIGN.md §6 C12, §5.1",
        text="A base history (build, flag, pass, read events) and the finite set of lifetime perturbations of it: a fresh clone for any operand use, a drop right after a handle's last named use, re-binding the operand's variable instead of a new one, the pass from a clone of the root, the gradient read through another clone, a handle replaced by a clone of itself mid-life. Quick: seeded single and multiple placements; thorough: every single placement for a subsample of base histories plus seeded combinations. Oracle: every value and gradient observed in the perturbed run is bitwise identical to the base run's; gradients are identical through every live clone after every event.",
        note="Trusted: the trace transformation (slot renaming for re-binding) and the alignment of observations between base and perturbed run.",
        tech=TECH + "relational oracle: base run vs lifetime-perturbed replays, bitwise"),
    "C14": dict(cat="exploration", ref="DESIGN.md §6 C14",
        text="Training histories on the real Model/Dense/Conv/GradientDescent/cost code (seeded stacks of 1-3 layers, all activations, both costs, batch absent/1/>1 changing between iterations, forward twice, retained old outputs, evaluation forwards, several backward calls before one update, frozen parameters, targets broadcast against the output, batched and unbatched input, a persistent optimizer shared by two models, model torn down and rebuilt around the same layers - also between backward and update -, observers holding parameter, input and target handles) interleaved with other actors' calls. Oracle per iteration: returned loss and parameters after update against old - lr * gradient computed by the dual-number reference from the documented formulas (toleranced), and bitwise against the same iteration on a fresh model restarted from the parameter snapshot (F13), plus no gradient left after update.",
        note="Trusted: reference formulas for dense/conv/activations/costs (also C15's statement), the Tap layer (public Layer trait) that snapshots parameter handles at every forward; iterations whose ReLU inputs come within 1e-6 of the kink or whose reference is non-finite are not judged absolutely (counted).",
        tech=TECH + "reference step oracle plus restart-from-snapshot relational oracle per iteration"),
    "C17": dict(cat="exploration", ref="DESIGN.md §6 C17",
        text="At passes inside interleaved histories (after other passes, clears, drops, flag toggles) the prefix is forked five times: seeds s1, s2, alpha*s1+beta*s2, none, ones (and gamma*s1 with gamma = 2^-60, 2^-30 or 2^30). Deposits must combine linearly (exact on integer data, K*eps*Mag otherwise) and backward(None) must equal backward(ones) bitwise. The relation itself quantifies over inputs; what the simulator adds is the history context in which the root's seed selection reads shared pending state.",
        note="Trusted: forking by replay of the explicit prefix; magnitude of the adjoint from the reference for the tolerance.",
        tech=TECH + "relational oracle: five forks of the same prefix with different seeds"),
    "C18": dict(cat="fault_enumeration", ref="DESIGN.md §6 C18",
        text="Retire events (move the leaf out, probe sole ownership with Vec::from under catch_unwind) injected into arbitrary histories at points where the shadow says every derived result is gone, with gradients still stored or held; thorough tier additionally enumerates every drop order of the result handles at quiescence for sampled histories.",
        note="Trusted: the shadow's conservative 'may still be pinned' (dataflow ancestry of every live handle, aliases included).",
        tech=TECH + "lifetime-fault enumeration with sole-ownership probe"),
    "C19": dict(cat="exploration", ref="DESIGN.md §6 C19",
        text="Two halves. Native: the simulator built against corgi --features f32 runs the seeded histories of every claimed property with all monitors (reference-model, structural and relational; integer data exact up to 2^24, other data within K*eps32*Mag). Cross-build: integer-data histories generated once are executed by the f64 and the f32 binary and their complete logs (event statuses incl. refusals, shapes, values, gradients, ownership probes) must be identical; on non-integer data the structure of the logs (statuses, ownership-probe outcomes, shapes) must be identical. Restricted to the simulator's histories; the input spaces of the value kernels (C04-C07) under f32 are not decided by this family.",
        note="Trusted: exactness guards (every partial sum times the finest granularity <= 2^24), the pipe protocol between the two binaries. Both binaries are rebuilt from /repo's working tree.",
        tech=TECH + "same explicit traces executed on the f32 and f64 builds, logs compared; all monitors run natively on the f32 build"),
}

BUILDING = {
}

NA = {
    "C02": "each operation's local derivative is a pure function of (operand values, parameters, seed): no schedule, state, fault or interleaving enters, so it is input enumeration, not a simulation target (defects of this kind met by C01's vocabulary are recorded in known_findings.json)",
    "C04": "element-wise broadcasting is a pure function of two shapes and their values; the only quantifier is inputs",
    "C05": "matmul values are a pure function of operands and flags; the only quantifier is inputs",
    "C06": "convolution values are a pure function of image, filters and stride; the only quantifier is inputs",
    "C07": "reductions, reshape and point-wise maps are pure functions of one array and scalar parameters",
    "C15": "layer/activation/cost formulas are pure functions of inputs and parameters (they are used as the reference model of C14)",
    "C16": "construction, indexing and equality are pure functions of shapes, values and indices",
}

def main():
    pending = json.loads(os.environ.get("PENDING", "{}"))
    checks = []
    for pid in sorted(CLAIMED):
        c = CLAIMED[pid]
        checks.append({
            "property_id": pid,
            "quick_cmd": f"bin/check {pid} quick",
            "thorough_cmd": f"bin/check {pid} thorough",
            "evidence_file": f"/verif/evidence/{pid}.json",
            "replay_cmd_template": "bin/check --replay {path}",
            "engine": "corgisim",
            "level_claimed": {"category": c["cat"], "text": c["text"], "design_ref": c["ref"]},
            "level_note": c["note"],
            "technique": c["tech"],
        })
    na = [{"property_id": k, "reason": v} for k, v in sorted(NA.items())]
    for k, v in sorted(BUILDING.items()):
        na.append({"property_id": k, "reason": v})
    m = {
        "version": 1,
        "setup_cmd": "bin/check --build",
        "hooks": {
            "guard": "corgi_verif",
            "enable": "cargo feature corgi_verif of corgi, enabled by /verif/sim/Cargo.toml (corgi = { path = \"/repo\", features = [\"corgi_verif\"] }); every check rebuilds corgi from /repo with it",
            "baseline_off_cmd": "cd /repo && cargo test --workspace --no-fail-fast --offline",
            "source_commits": HOOK_COMMITS,
            "add_only": True,
        },
        "engines": [{
            "name": "corgisim",
            "path": "/verif/sim",
            "serves_properties": sorted(CLAIMED),
            "kind_free_text": "hand-written deterministic simulator: seeded scheduler over actor turns at library-call granularity, explicit replayable event traces, fault catalogue F1-F14, dual-number reference model, relational forks, ddmin minimiser",
        }],
        "checks": checks,
        "not_applicable": na,
        "notes": "One VERIF_SEED decides every run (default 1). Exit 0 / 1 (VIOLATION line) / 2 (harness error). Genuine defects found and repaired are listed as fixed in known_findings.json; see DESIGN.md §9.",
    }
    with open(os.path.join(ROOT, "MANIFEST.json"), "w") as f:
        json.dump(m, f, indent=1)
        f.write("\n")
    print("claimed", sorted(CLAIMED), "n/a", [x["property_id"] for x in na])

HOOK_COMMITS = ["48d91e0"]

if __name__ == "__main__":
    main()
