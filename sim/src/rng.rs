//! Hand-written PRNG (splitmix64 for seeding, xoshiro256** for the stream). Nothing else in the
//! simulator draws randomness; logging never draws.

#[derive(Clone, Debug)]
pub struct Rng {
    s: [u64; 4],
}

pub fn splitmix64(x: &mut u64) -> u64 {
    *x = x.wrapping_add(0x9E37_79B9_7F4A_7C15);
    let mut z = *x;
    z = (z ^ (z >> 30)).wrapping_mul(0xBF58_476D_1CE4_E5B9);
    z = (z ^ (z >> 27)).wrapping_mul(0x94D0_49BB_1331_11EB);
    z ^ (z >> 31)
}

/// Derives the per-run seed from (base seed, stream label, run index); independent of worker count.
pub fn derive(base: u64, label: &str, index: u64) -> u64 {
    let mut h: u64 = 0xcbf2_9ce4_8422_2325;
    for b in label.bytes() {
        h ^= b as u64;
        h = h.wrapping_mul(0x0000_0100_0000_01B3);
    }
    let mut x = base ^ h.rotate_left(17) ^ index.wrapping_mul(0xD6E8_FEB8_6659_FD93);
    let a = splitmix64(&mut x);
    let b = splitmix64(&mut x);
    a ^ b.rotate_left(32)
}

impl Rng {
    pub fn new(seed: u64) -> Rng {
        let mut x = seed;
        let s = [
            splitmix64(&mut x),
            splitmix64(&mut x),
            splitmix64(&mut x),
            splitmix64(&mut x),
        ];
        Rng { s }
    }

    pub fn next_u64(&mut self) -> u64 {
        let result = self.s[1].wrapping_mul(5).rotate_left(7).wrapping_mul(9);
        let t = self.s[1] << 17;
        self.s[2] ^= self.s[0];
        self.s[3] ^= self.s[1];
        self.s[1] ^= self.s[2];
        self.s[0] ^= self.s[3];
        self.s[2] ^= t;
        self.s[3] = self.s[3].rotate_left(45);
        result
    }

    /// Uniform in 0..n (n >= 1).
    pub fn below(&mut self, n: usize) -> usize {
        debug_assert!(n >= 1);
        (self.next_u64() % (n as u64)) as usize
    }

    /// Uniform in lo..=hi.
    pub fn range(&mut self, lo: i64, hi: i64) -> i64 {
        lo + (self.next_u64() % ((hi - lo + 1) as u64)) as i64
    }

    /// True with probability num/den.
    pub fn chance(&mut self, num: u32, den: u32) -> bool {
        (self.next_u64() % den as u64) < num as u64
    }

    pub fn pick<'a, T>(&mut self, xs: &'a [T]) -> &'a T {
        &xs[self.below(xs.len())]
    }

    /// Index drawn by integer weights (sum must be > 0).
    pub fn weighted(&mut self, w: &[u32]) -> usize {
        let total: u64 = w.iter().map(|x| *x as u64).sum();
        debug_assert!(total > 0);
        let mut r = self.next_u64() % total;
        for (i, x) in w.iter().enumerate() {
            if r < *x as u64 {
                return i;
            }
            r -= *x as u64;
        }
        w.len() - 1
    }

    pub fn shuffle<T>(&mut self, xs: &mut [T]) {
        for i in (1..xs.len()).rev() {
            let j = self.below(i + 1);
            xs.swap(i, j);
        }
    }
}

/// FNV-1a 64-bit running hash used for digests (no addresses, no times).
#[derive(Clone, Copy, Debug)]
pub struct Fnv(pub u64);

impl Default for Fnv {
    fn default() -> Self {
        Fnv(0xcbf2_9ce4_8422_2325)
    }
}

impl Fnv {
    pub fn bytes(&mut self, b: &[u8]) {
        for x in b {
            self.0 ^= *x as u64;
            self.0 = self.0.wrapping_mul(0x0000_0100_0000_01B3);
        }
    }
    pub fn u64(&mut self, x: u64) {
        self.bytes(&x.to_le_bytes());
    }
    pub fn str(&mut self, s: &str) {
        self.bytes(s.as_bytes());
        self.bytes(&[0xff]);
    }
    pub fn f64s(&mut self, xs: &[f64]) {
        for x in xs {
            self.u64(x.to_bits());
        }
    }
    pub fn usizes(&mut self, xs: &[usize]) {
        for x in xs {
            self.u64(*x as u64);
        }
        self.bytes(&[0xfe]);
    }
}
