//! Independent reference definitions of corgi's differentiable operations, written from the
//! mathematical definitions with naive index loops and generic over a scalar so that the same
//! definition evaluates with `f64` and with dual numbers (forward-mode differentiation). No
//! derivative formula of any array operation is written by hand here.

use crate::event::{Act, CostKind, CustomKind, Op};

pub trait Scalar: Copy {
    fn c(x: f64) -> Self;
    fn val(self) -> f64;
    fn add(self, o: Self) -> Self;
    fn sub(self, o: Self) -> Self;
    fn mul(self, o: Self) -> Self;
    fn div(self, o: Self) -> Self;
    fn neg(self) -> Self;
    fn scale(self, k: f64) -> Self;
    fn ln(self) -> Self;
    fn exp(self) -> Self;
    fn powf(self, p: f64) -> Self;
    fn recip(self) -> Self;
    fn relu(self) -> Self;
    fn sigmoid(self) -> Self;
}

impl Scalar for f64 {
    fn c(x: f64) -> f64 {
        x
    }
    fn val(self) -> f64 {
        self
    }
    fn add(self, o: f64) -> f64 {
        self + o
    }
    fn sub(self, o: f64) -> f64 {
        self - o
    }
    fn mul(self, o: f64) -> f64 {
        self * o
    }
    fn div(self, o: f64) -> f64 {
        self / o
    }
    fn neg(self) -> f64 {
        -self
    }
    fn scale(self, k: f64) -> f64 {
        self * k
    }
    fn ln(self) -> f64 {
        f64::ln(self)
    }
    fn exp(self) -> f64 {
        f64::exp(self)
    }
    fn powf(self, p: f64) -> f64 {
        f64::powf(self, p)
    }
    fn recip(self) -> f64 {
        1.0 / self
    }
    fn relu(self) -> f64 {
        if self > 0.0 {
            self
        } else {
            0.0
        }
    }
    fn sigmoid(self) -> f64 {
        1.0 / (1.0 + f64::exp(-self))
    }
}

/// Magnitude scalar: every operation replaced by its absolute-value counterpart, so that the result
/// bounds every partial sum the real kernel can form (used to decide exactness of integer data).
#[derive(Clone, Copy, Debug)]
pub struct AbsF(pub f64);

impl Scalar for AbsF {
    fn c(x: f64) -> AbsF {
        AbsF(x.abs())
    }
    fn val(self) -> f64 {
        self.0
    }
    fn add(self, o: AbsF) -> AbsF {
        AbsF(self.0 + o.0)
    }
    fn sub(self, o: AbsF) -> AbsF {
        AbsF(self.0 + o.0)
    }
    fn mul(self, o: AbsF) -> AbsF {
        AbsF(self.0 * o.0)
    }
    fn div(self, o: AbsF) -> AbsF {
        AbsF(self.0 / o.0)
    }
    fn neg(self) -> AbsF {
        self
    }
    fn scale(self, k: f64) -> AbsF {
        AbsF(self.0 * k.abs())
    }
    fn ln(self) -> AbsF {
        AbsF(self.0.ln().abs())
    }
    fn exp(self) -> AbsF {
        AbsF(self.0.exp())
    }
    fn powf(self, p: f64) -> AbsF {
        AbsF(self.0.powf(p))
    }
    fn recip(self) -> AbsF {
        AbsF(1.0 / self.0)
    }
    fn relu(self) -> AbsF {
        self
    }
    fn sigmoid(self) -> AbsF {
        AbsF(1.0)
    }
}

/// Dual number with one tangent direction `d`, plus `a`: the same tangent propagated with the
/// absolute values of all local partials (the "every term replaced by its absolute value"
/// magnitude used to scale tolerances and to decide whether integer data stays exact).
#[derive(Clone, Copy, Debug)]
pub struct Dual {
    pub v: f64,
    pub d: f64,
    pub a: f64,
}

impl Dual {
    pub fn var(v: f64) -> Dual {
        Dual { v, d: 1.0, a: 1.0 }
    }
}

impl Scalar for Dual {
    fn c(x: f64) -> Dual {
        Dual { v: x, d: 0.0, a: 0.0 }
    }
    fn val(self) -> f64 {
        self.v
    }
    fn add(self, o: Dual) -> Dual {
        Dual { v: self.v + o.v, d: self.d + o.d, a: self.a + o.a }
    }
    fn sub(self, o: Dual) -> Dual {
        Dual { v: self.v - o.v, d: self.d - o.d, a: self.a + o.a }
    }
    fn mul(self, o: Dual) -> Dual {
        Dual {
            v: self.v * o.v,
            d: self.d * o.v + self.v * o.d,
            a: self.a * o.v.abs() + self.v.abs() * o.a,
        }
    }
    fn div(self, o: Dual) -> Dual {
        let q = o.v * o.v;
        Dual {
            v: self.v / o.v,
            d: (self.d * o.v - self.v * o.d) / q,
            a: (self.a * o.v.abs() + self.v.abs() * o.a) / q,
        }
    }
    fn neg(self) -> Dual {
        Dual { v: -self.v, d: -self.d, a: self.a }
    }
    fn scale(self, k: f64) -> Dual {
        Dual { v: self.v * k, d: self.d * k, a: self.a * k.abs() }
    }
    fn ln(self) -> Dual {
        Dual { v: self.v.ln(), d: self.d / self.v, a: self.a / self.v.abs() }
    }
    fn exp(self) -> Dual {
        let e = self.v.exp();
        Dual { v: e, d: self.d * e, a: self.a * e }
    }
    fn powf(self, p: f64) -> Dual {
        let k = p * self.v.powf(p - 1.0);
        Dual { v: self.v.powf(p), d: self.d * k, a: self.a * k.abs() }
    }
    fn recip(self) -> Dual {
        let q = self.v * self.v;
        Dual { v: 1.0 / self.v, d: -self.d / q, a: self.a / q }
    }
    fn relu(self) -> Dual {
        if self.v > 0.0 {
            self
        } else {
            Dual { v: 0.0, d: 0.0, a: 0.0 }
        }
    }
    fn sigmoid(self) -> Dual {
        let s = 1.0 / (1.0 + (-self.v).exp());
        let k = s * (1.0 - s);
        Dual { v: s, d: self.d * k, a: self.a * k }
    }
}

pub fn numel(dims: &[usize]) -> usize {
    dims.iter().product()
}

/// Right-aligned broadcast of two shapes; `None` when the shapes are inadmissible.
pub fn broadcast_dims(x: &[usize], y: &[usize]) -> Option<Vec<usize>> {
    let n = x.len().max(y.len());
    let mut out = vec![0; n];
    for i in 0..n {
        let a = if i < x.len() { x[x.len() - 1 - i] } else { 1 };
        let b = if i < y.len() { y[y.len() - 1 - i] } else { 1 };
        if a != b && a != 1 && b != 1 {
            return None;
        }
        out[n - 1 - i] = a.max(b);
    }
    Some(out)
}

/// True iff `small` is used broadcast (some position repeated) when combined into `out`.
pub fn is_broadcast(small: &[usize], out: &[usize]) -> bool {
    small != out
}

fn unravel(mut flat: usize, dims: &[usize], idx: &mut [usize]) {
    for i in (0..dims.len()).rev() {
        idx[i] = flat % dims[i];
        flat /= dims[i];
    }
}

/// Flat index into an operand of shape `dims` for the (right-aligned) multi-index `idx` of the output.
fn bidx(idx: &[usize], dims: &[usize]) -> usize {
    let off = idx.len() - dims.len();
    let mut f = 0;
    for (j, d) in dims.iter().enumerate() {
        let i = if *d == 1 { 0 } else { idx[off + j] };
        f = f * d + i;
    }
    f
}

/// Result dimensions of an operation by its documented semantics, or `None` if the operands are
/// not admitted (or the form is outside what the reference models).
pub fn out_dims(op: &Op, a: &[&[usize]]) -> Option<Vec<usize>> {
    match op {
        Op::Add | Op::Sub | Op::Mul | Op::Div | Op::Axpy(_) | Op::Cost(_) => {
            if a.len() != 2 {
                return None;
            }
            broadcast_dims(a[0], a[1])
        }
        Op::Neg | Op::Scale(_) | Op::Powf(_) | Op::Ln | Op::Exp | Op::Recip | Op::Relu | Op::Sigmoid | Op::Softmax | Op::Activation { .. } => {
            if a.len() != 1 {
                return None;
            }
            Some(a[0].to_vec())
        }
        Op::Stack { .. } => {
            if a.is_empty() || a.iter().any(|d| *d != a[0]) {
                return None;
            }
            let mut d = vec![a.len()];
            d.extend_from_slice(a[0]);
            Some(d)
        }
        Op::Sum(k) => {
            if a.len() != 1 {
                return None;
            }
            if *k == 0 {
                return Some(a[0].to_vec());
            }
            let lead = a[0].len().saturating_sub(*k);
            let mut d = a[0][..lead].to_vec();
            d.push(1);
            Some(d)
        }
        Op::Reshape(d) => {
            if a.len() != 1 || d.is_empty() || d.iter().any(|x| *x == 0) || numel(d) != numel(a[0]) {
                return None;
            }
            Some(d.clone())
        }
        Op::Matmul { ta, tb } => {
            if a.len() != 2 && a.len() != 3 {
                return None;
            }
            let g = matmul_geom(a[0], *ta, a[1], *tb)?;
            if a.len() == 3 {
                // the additive term is broadcast (right-aligned) over rows and batches
                let c = a[2];
                let ok = numel(c) == 1 && c.len() <= g.out.len() || (*c.last().unwrap() == g.cols && c.len() <= g.out.len() && broadcast_dims(c, &g.out).as_deref() == Some(&g.out[..]));
                if !ok {
                    return None;
                }
            }
            Some(g.out)
        }
        Op::Conv { sr, sc } => {
            if a.len() != 2 {
                return None;
            }
            let g = conv_geom(a[0], a[1], *sr, *sc)?;
            Some(g.out)
        }
        Op::Custom { kind, coef, .. } => match kind {
            CustomKind::Lin => {
                if a.is_empty() || coef.len() != a.len() || a.iter().any(|d| *d != a[0]) {
                    return None;
                }
                Some(a[0].to_vec())
            }
            CustomKind::Prod2 | CustomKind::Prod2Crate | CustomKind::CrateFwdNoBwd => {
                if a.len() != 2 || a[0] != a[1] {
                    return None;
                }
                Some(a[0].to_vec())
            }
            CustomKind::NestedSq => {
                if a.len() != 1 {
                    return None;
                }
                Some(a[0].to_vec())
            }
        },
    }
}

pub struct MatGeom {
    pub rows: usize,
    pub cols: usize,
    pub inner: usize,
    pub lead: Vec<usize>,
    pub a_lead: Vec<usize>,
    pub b_lead: Vec<usize>,
    pub a_mat: (usize, usize),
    pub b_mat: (usize, usize),
    pub out: Vec<usize>,
}

/// Supported forms: both operands of rank >= 2 (leading dimensions of the shorter, or for equal
/// rank the right-hand, operand broadcast to the other's), or an untransposed rank-1 left operand
/// (a one-row matrix) next to a rank >= 2 right operand.
pub fn matmul_geom(a: &[usize], ta: bool, b: &[usize], tb: bool) -> Option<MatGeom> {
    if b.len() < 2 {
        return None;
    }
    let (a_lead, a_mat): (Vec<usize>, (usize, usize)) = if a.len() >= 2 {
        (a[..a.len() - 2].to_vec(), (a[a.len() - 2], a[a.len() - 1]))
    } else if a.len() == 1 && !ta {
        (vec![], (1, a[0]))
    } else {
        return None;
    };
    let b_lead = b[..b.len() - 2].to_vec();
    let b_mat = (b[b.len() - 2], b[b.len() - 1]);
    let (rows, inner_a) = if ta { (a_mat.1, a_mat.0) } else { a_mat };
    let (inner_b, cols) = if tb { (b_mat.1, b_mat.0) } else { b_mat };
    if inner_a != inner_b {
        return None;
    }
    // the longer operand (the left one on ties) provides the leading dimensions
    let a_rank = a.len().max(2);
    let (lead, other) = if a_rank >= b.len() && a.len() >= 2 { (a_lead.clone(), b_lead.clone()) } else { (b_lead.clone(), a_lead.clone()) };
    if other.len() > lead.len() {
        return None;
    }
    for i in 0..other.len() {
        let o = other[other.len() - 1 - i];
        let l = lead[lead.len() - 1 - i];
        if o != 1 && o != l {
            return None;
        }
    }
    let mut out = lead.clone();
    out.push(rows);
    out.push(cols);
    Some(MatGeom { rows, cols, inner: inner_a, lead, a_lead, b_lead, a_mat, b_mat, out })
}

pub struct ConvGeom {
    pub batch: Vec<usize>,
    pub depth: usize,
    pub rows: usize,
    pub cols: usize,
    pub count: usize,
    pub fr: usize,
    pub fc: usize,
    pub orows: usize,
    pub ocols: usize,
    pub out: Vec<usize>,
}

pub fn conv_geom(img: &[usize], fil: &[usize], sr: usize, sc: usize) -> Option<ConvGeom> {
    if img.len() < 3 || fil.len() != 4 || sr == 0 || sc == 0 {
        return None;
    }
    let n = img.len();
    let (depth, rows, cols) = (img[n - 3], img[n - 2], img[n - 1]);
    let (count, fdepth, fr, fc) = (fil[0], fil[1], fil[2], fil[3]);
    if fdepth != depth || fr > rows || fc > cols {
        return None;
    }
    let orows = (rows - fr) / sr + 1;
    let ocols = (cols - fc) / sc + 1;
    let batch = img[..n - 3].to_vec();
    let mut out = batch.clone();
    out.extend([count, orows, ocols]);
    Some(ConvGeom { batch, depth, rows, cols, count, fr, fc, orows, ocols, out })
}

/// Evaluates one operation on operand (dims, values) pairs. Caller guarantees `out_dims` is `Some`.
pub fn eval<S: Scalar>(op: &Op, args: &[(&[usize], &[S])]) -> Vec<S> {
    let dims: Vec<&[usize]> = args.iter().map(|a| a.0).collect();
    let od = out_dims(op, &dims).expect("eval called on inadmissible operands");
    let n = numel(&od);
    match op {
        Op::Cost(kind) => {
            // mse: (target - output)^2 / numel(output); cross entropy: -target * ln(output) / output.dims[0]
            let mut out = Vec::with_capacity(n);
            let mut idx = vec![0; od.len()];
            let len = numel(args[0].0) as f64;
            let lead = args[0].0[0] as f64;
            for f in 0..n {
                unravel(f, &od, &mut idx);
                let o = args[0].1[bidx(&idx, args[0].0)];
                let t = args[1].1[bidx(&idx, args[1].0)];
                out.push(match kind {
                    CostKind::Mse => {
                        let d = t.sub(o);
                        d.mul(d).scale(1.0 / len)
                    }
                    CostKind::CrossEntropy => t.neg().mul(o.ln()).scale(1.0 / lead),
                });
            }
            out
        }
        Op::Add | Op::Sub | Op::Mul | Op::Div | Op::Axpy(_) => {
            let mut out = Vec::with_capacity(n);
            let mut idx = vec![0; od.len()];
            for f in 0..n {
                unravel(f, &od, &mut idx);
                let x = args[0].1[bidx(&idx, args[0].0)];
                let y = args[1].1[bidx(&idx, args[1].0)];
                out.push(match op {
                    Op::Add => x.add(y),
                    Op::Sub => x.sub(y),
                    Op::Mul => x.mul(y),
                    Op::Div => x.div(y),
                    Op::Axpy(alpha) => x.scale(*alpha).add(y),
                    _ => unreachable!(),
                });
            }
            out
        }
        Op::Activation { act, .. } => match act {
            Act::None => args[0].1.to_vec(),
            Act::Relu => eval::<S>(&Op::Relu, args),
            Act::Sigmoid => eval::<S>(&Op::Sigmoid, args),
            Act::Softmax => eval::<S>(&Op::Softmax, args),
        },
        Op::Stack { .. } => args.iter().flat_map(|a| a.1.iter().copied()).collect(),
        Op::Neg => args[0].1.iter().map(|x| x.neg()).collect(),
        Op::Scale(k) => args[0].1.iter().map(|x| x.scale(*k)).collect(),
        Op::Powf(p) => args[0].1.iter().map(|x| x.powf(*p)).collect(),
        Op::Ln => args[0].1.iter().map(|x| x.ln()).collect(),
        Op::Exp => args[0].1.iter().map(|x| x.exp()).collect(),
        Op::Recip => args[0].1.iter().map(|x| x.recip()).collect(),
        Op::Relu => args[0].1.iter().map(|x| x.relu()).collect(),
        Op::Sigmoid => args[0].1.iter().map(|x| x.sigmoid()).collect(),
        Op::Softmax => {
            let last = *args[0].0.last().unwrap();
            let mut out = Vec::with_capacity(n);
            for row in args[0].1.chunks(last) {
                let e: Vec<S> = row.iter().map(|x| x.exp()).collect();
                let mut s = S::c(0.0);
                for x in &e {
                    s = s.add(*x);
                }
                for x in &e {
                    out.push(x.div(s));
                }
            }
            out
        }
        Op::Sum(k) => {
            if *k == 0 {
                return args[0].1.to_vec();
            }
            let block = numel(args[0].0) / n;
            args[0]
                .1
                .chunks(block)
                .map(|c| {
                    let mut s = S::c(0.0);
                    for x in c {
                        s = s.add(*x);
                    }
                    s
                })
                .collect()
        }
        Op::Reshape(_) => args[0].1.to_vec(),
        Op::Matmul { ta, tb } => {
            let g = matmul_geom(args[0].0, *ta, args[1].0, *tb).unwrap();
            let mut out = Vec::with_capacity(n);
            let nl = g.lead.len();
            let mut lidx = vec![0; nl];
            let nbatch = numel(&g.lead);
            let a_sz = g.a_mat.0 * g.a_mat.1;
            let b_sz = g.b_mat.0 * g.b_mat.1;
            for bt in 0..nbatch {
                unravel(bt, &g.lead, &mut lidx);
                let ao = if g.a_lead.is_empty() { 0 } else { bidx(&lidx, &g.a_lead) } * a_sz;
                let bo = if g.b_lead.is_empty() { 0 } else { bidx(&lidx, &g.b_lead) } * b_sz;
                for r in 0..g.rows {
                    for c in 0..g.cols {
                        let mut s = S::c(0.0);
                        for k in 0..g.inner {
                            let av = if *ta { args[0].1[ao + k * g.a_mat.1 + r] } else { args[0].1[ao + r * g.a_mat.1 + k] };
                            let bv = if *tb { args[1].1[bo + c * g.b_mat.1 + k] } else { args[1].1[bo + k * g.b_mat.1 + c] };
                            s = s.add(av.mul(bv));
                        }
                        if args.len() == 3 {
                            let cd = args[2].0;
                            let cv = if args[2].1.len() == 1 {
                                args[2].1[0]
                            } else {
                                let mut oi = lidx.clone();
                                oi.push(r);
                                oi.push(c);
                                args[2].1[bidx(&oi, cd)]
                            };
                            s = s.add(cv);
                        }
                        out.push(s);
                    }
                }
            }
            out
        }
        Op::Conv { sr, sc } => {
            let g = conv_geom(args[0].0, args[1].0, *sr, *sc).unwrap();
            let nb = numel(&g.batch);
            let img_sz = g.depth * g.rows * g.cols;
            let mut out = Vec::with_capacity(n);
            for bt in 0..nb {
                for f in 0..g.count {
                    for y in 0..g.orows {
                        for x in 0..g.ocols {
                            let mut s = S::c(0.0);
                            for k in 0..g.depth {
                                for m in 0..g.fr {
                                    for q in 0..g.fc {
                                        let iv = args[0].1[bt * img_sz + (k * g.rows + y * sr + m) * g.cols + x * sc + q];
                                        let fv = args[1].1[((f * g.depth + k) * g.fr + m) * g.fc + q];
                                        s = s.add(iv.mul(fv));
                                    }
                                }
                            }
                            out.push(s);
                        }
                    }
                }
            }
            out
        }
        Op::Custom { kind, coef, .. } => match kind {
            CustomKind::Lin => (0..n)
                .map(|i| {
                    let mut s = S::c(0.0);
                    for (j, a) in args.iter().enumerate() {
                        s = s.add(a.1[i].scale(coef[j]));
                    }
                    s
                })
                .collect(),
            CustomKind::Prod2 | CustomKind::Prod2Crate | CustomKind::CrateFwdNoBwd => (0..n).map(|i| args[0].1[i].mul(args[1].1[i])).collect(),
            CustomKind::NestedSq => args[0].1.iter().map(|x| x.mul(*x)).collect(),
        },
    }
}

/// Domain guard for the SMOOTH regime, evaluated on reference operand values before an event is
/// emitted: keeps condition numbers small and stays off the ReLU kink.
pub fn in_domain(op: &Op, args: &[(&[usize], &[f64])]) -> bool {
    let within = |xs: &[f64], lo: f64, hi: f64| xs.iter().all(|x| x.abs() >= lo && x.abs() <= hi);
    match op {
        Op::Ln => args[0].1.iter().all(|x| *x >= 0.25 && *x <= 4.0),
        Op::Cost(CostKind::CrossEntropy) => args[0].1.iter().all(|x| *x >= 0.25 && *x <= 4.0),
        Op::Recip => within(args[0].1, 0.25, 4.0),
        Op::Div => within(args[1].1, 0.25, 4.0),
        Op::Powf(p) => {
            if p.fract() == 0.0 && *p >= 1.0 {
                // a positive integer power is smooth everywhere, zero included
                args[0].1.iter().all(|x| x.abs() <= 4.0)
            } else if p.fract() == 0.0 {
                within(args[0].1, 0.25, 4.0)
            } else {
                args[0].1.iter().all(|x| *x >= 0.25 && *x <= 4.0)
            }
        }
        Op::Relu | Op::Activation { act: Act::Relu, .. } => args[0].1.iter().all(|x| x.abs() >= 0.125),
        Op::Exp | Op::Softmax | Op::Sigmoid | Op::Activation { .. } => args[0].1.iter().all(|x| x.abs() <= 8.0),
        _ => true,
    }
}

#[cfg(test)]
mod tests {
    use super::*;

    #[test]
    fn broadcast_shapes() {
        assert_eq!(broadcast_dims(&[2, 3], &[3]), Some(vec![2, 3]));
        assert_eq!(broadcast_dims(&[2, 1, 3], &[4, 1]), Some(vec![2, 4, 3]));
        assert_eq!(broadcast_dims(&[2, 3], &[2]), None);
    }

    #[test]
    fn matmul_ref() {
        let a = [1.0, 2.0, 3.0, 4.0, 5.0, 6.0];
        let b = [5.0, 3.0, 2.0, 6.0, 1.0, 2.0];
        let r = eval::<f64>(&Op::Matmul { ta: false, tb: false }, &[(&[2, 3], &a), (&[3, 2], &b)]);
        assert_eq!(r, vec![12.0, 21.0, 36.0, 54.0]);
        let at = [1.0, 4.0, 2.0, 5.0, 3.0, 6.0];
        let r = eval::<f64>(&Op::Matmul { ta: true, tb: false }, &[(&[3, 2], &at), (&[3, 2], &b)]);
        assert_eq!(r, vec![12.0, 21.0, 36.0, 54.0]);
    }

    #[test]
    fn dual_mul() {
        let x = Dual::var(3.0);
        let y = Dual::c(4.0);
        let z = x.mul(y).mul(x);
        assert_eq!(z.v, 36.0);
        assert_eq!(z.d, 24.0);
    }
}
