#!/usr/bin/env python3
"""Renders the sensitivity matrices (written by tools/mutants.py --out) as markdown tables and
annotates /verif/seeded/<id>/meta.json with what I confirmed and which checks catch the change.
usage: tools/mktables.py <seeded_matrix.json>[,<more seeded matrices>...] [<hand_matrix.json>] [<benign_matrix.json>]
"""
import json, os, sys

ROOT = os.path.dirname(os.path.dirname(os.path.abspath(__file__)))

def caught(res):
    return [c for c, x in sorted(res.items()) if x[0] == 1], [c for c, x in sorted(res.items()) if x[0] not in (0, 1)]

def main():
    byname = {}
    for f in sys.argv[1].split(","):
        for r in json.load(open(f)):
            byname[r["mutant"]] = r  # a later matrix overrides an earlier row of the same change
    seeded = sorted(byname.values(), key=lambda r: r["mutant"])
    if os.environ.get("DESIGN_TABLE"):
        # the three-column table of DESIGN.md 14.11
        print("| change | breaks | caught by |")
        print("|---|---|---|")
        none, other = [], 0
        for row in seeded:
            name = row["mutant"]
            mp = os.path.join(ROOT, "seeded", name, "meta.json")
            own = json.load(open(mp)).get("property", "?") if os.path.exists(mp) else "?"
            c, _ = caught(row["results"])
            if not c:
                none.append(name)
            elif own not in c:
                other += 1
            print(f"| {name} | {own} | {', '.join(c) + (' †' if own not in c else '') if c else '**none** (see 14.9)'} |")
        print()
        print(f"{len(seeded)} seeded changes: {len(seeded) - len(none)} caught, {len(none)} not caught by decision ({', '.join(none)}); {other} caught by other checks only at this scale.")
        return
    print("| change | breaks | needs, in order to manifest | caught by (quick tier, 1/4 of the runs) |")
    print("|---|---|---|---|")
    for row in seeded:
        name = row["mutant"]
        mp = os.path.join(ROOT, "seeded", name, "meta.json")
        meta = json.load(open(mp)) if os.path.exists(mp) else {}
        c, e = caught(row["results"])
        needs = (meta.get("needs") or "").replace("\n", " ").replace("|", "/")
        if len(needs) > 150:
            needs = needs[:147] + "..."
        own = meta.get("property", "?")
        mark = "" if own in c else " **(own check misses)**"
        print(f"| {name} | {own} | {needs} | {', '.join(c) or 'NONE'}{mark}{' ; harness error: ' + ', '.join(e) if e else ''} |")
        if meta:
            meta["confirmed_by_harness_author"] = "tools/seedverify.py in a scratch worktree: corgi's own suite passes with the change (69 unit + 11 doc tests), the demonstration fails with it and passes without it"
            meta["checks_run"] = "tools/mutants.py: git -C /repo apply patch.diff; bin/check <ID> quick for all twelve checks with VERIF_RUNS_SCALE=0.25; git -C /repo checkout -- ."
            meta["caught_by"] = c
            json.dump(meta, open(mp, "w"), indent=1)
    for extra in sys.argv[2:]:
        rows = json.load(open(extra))
        print()
        print(f"<!-- {os.path.basename(extra)} -->")
        print("| variant | caught by |")
        print("|---|---|")
        for row in rows:
            c, e = caught(row["results"])
            print(f"| {row['mutant']} | {', '.join(c) or 'none'}{' ; harness error: ' + ', '.join(e) if e else ''} |")

if __name__ == "__main__":
    main()
