//! Seeded scheduler and actors. On every tick the scheduler draws an actor by the run's weights
//! and the actor draws one library call; the resulting explicit event is what gets recorded.
//! Everything here is a pure function of the run seed and the simulator state.

use crate::event::*;
use crate::refmodel::numel;
use crate::rng::Rng;
use crate::sim::{Regime, Sim};
use std::collections::VecDeque;

#[derive(Clone, Debug)]
pub struct Profile {
    pub name: &'static str,
    /// actor weights: builder, differ, graduser, lifetime, flagger, optimizer, retirer, refuser, trainer, scenarist
    pub w: [u32; 10],
    pub custom_pct: u32,
    pub reent_pct: u32,
    pub bcast_pct: u32,
    pub smooth_pct: u32,
    pub share_pct: u32,
    pub max_events: usize,
    pub shape: ShapeMode,
    /// only integer coefficients and learning rates (cross-build runs: everything exact in f32)
    pub integer_only: bool,
}

#[derive(Clone, Copy, Debug, PartialEq)]
pub enum ShapeMode {
    /// any mixture
    Mixed,
    /// few distinct shapes so that many operands are compatible (alias / pass-schedule pressure)
    Narrow,
}

pub const ACTORS: [&str; 10] = ["builder", "differ", "graduser", "lifetime", "flagger", "optimizer", "retirer", "refuser", "trainer", "scenarist"];

pub fn profile(name: &str) -> Profile {
    let base = Profile { name: "C01", w: [50, 14, 4, 10, 6, 0, 2, 1, 0, 3], custom_pct: 20, reent_pct: 10, bcast_pct: 30, smooth_pct: 30, share_pct: 50, max_events: 60, shape: ShapeMode::Mixed, integer_only: false };
    match name {
        "C01" => base,
        "C03" => Profile { name: "C03", w: [55, 16, 3, 6, 2, 3, 1, 1, 0, 5], custom_pct: 5, reent_pct: 0, bcast_pct: 85, smooth_pct: 0, share_pct: 75, ..base },
        "C08" => Profile { name: "C08", w: [35, 12, 12, 14, 4, 8, 3, 4, 0, 6], custom_pct: 15, reent_pct: 20, bcast_pct: 20, smooth_pct: 20, share_pct: 60, shape: ShapeMode::Narrow, ..base },
        "C09" => Profile { name: "C09", w: [40, 14, 6, 8, 24, 1, 6, 1, 0, 2], custom_pct: 15, reent_pct: 10, bcast_pct: 15, smooth_pct: 20, share_pct: 60, ..base },
        "C10" => Profile { name: "C10", w: [34, 28, 12, 10, 5, 0, 2, 2, 0, 4], custom_pct: 20, reent_pct: 15, bcast_pct: 20, smooth_pct: 25, share_pct: 70, shape: ShapeMode::Narrow, ..base },
        "C11" => Profile { name: "C11", w: [55, 16, 3, 8, 4, 0, 1, 0, 0, 8], custom_pct: 90, reent_pct: 25, bcast_pct: 0, smooth_pct: 0, share_pct: 80, shape: ShapeMode::Narrow, ..base },
        "C12" => Profile { name: "C12", w: [50, 16, 8, 0, 5, 4, 0, 0, 0, 0], custom_pct: 15, reent_pct: 5, bcast_pct: 20, smooth_pct: 30, share_pct: 65, max_events: 30, ..base },
        "C13" => Profile { name: "C13", w: [34, 18, 8, 6, 3, 22, 2, 1, 0, 5], custom_pct: 5, reent_pct: 0, bcast_pct: 25, smooth_pct: 40, share_pct: 60, ..base },
        "C17" => Profile { name: "C17", w: [48, 20, 8, 8, 5, 0, 1, 1, 0, 2], custom_pct: 15, reent_pct: 5, bcast_pct: 20, smooth_pct: 40, share_pct: 60, max_events: 40, ..base },
        "C14" => Profile { name: "C14", w: [10, 4, 4, 6, 2, 0, 3, 1, 70, 0], custom_pct: 5, reent_pct: 0, bcast_pct: 10, smooth_pct: 100, share_pct: 50, max_events: 90, shape: ShapeMode::Narrow, ..base },
        "C18" => Profile { name: "C18", w: [38, 14, 8, 16, 4, 4, 16, 2, 0, 3], custom_pct: 15, reent_pct: 10, bcast_pct: 15, smooth_pct: 20, share_pct: 60, ..base },
        _ => base,
    }
}

pub struct Gen {
    pub rng: Rng,
    pub p: Profile,
    pub regime: Regime,
    pub queue: VecDeque<(Ev, &'static str)>,
    pub next_slot: usize,
    pub emitted: usize,
    pub max_events: usize,
    pub actors: Vec<(usize, u32)>,
    pub vocab: Vec<(u8, u32)>,
    pub base_dims: Vec<Vec<usize>>,
    pub last_actor: &'static str,
    pub faults_enabled: [bool; 4],
    pub actor_log: Vec<&'static str>,
    pub trains_left: u32,
    pub train_kind_conv: bool,
    pub last_stack: Option<(Vec<LayerSpec>, CostKind)>,
    /// thorough tier: allow the deepest chains
    pub deep: bool,
    pub last_batch: Option<(Vec<usize>, Vec<f64>)>,
}

const V_ADD: u8 = 0;
const V_SUB: u8 = 1;
const V_MUL: u8 = 2;
const V_NEG: u8 = 3;
const V_SCALE: u8 = 4;
const V_SUM: u8 = 5;
const V_RESHAPE: u8 = 6;
const V_MATMUL: u8 = 7;
const V_CONV: u8 = 8;
const V_RELU: u8 = 9;
const V_AXPY: u8 = 10;
const V_CUSTOM: u8 = 11;
const V_DIV: u8 = 12;
const V_RECIP: u8 = 13;
const V_LN: u8 = 14;
const V_EXP: u8 = 15;
const V_POWF: u8 = 16;
const V_SIGMOID: u8 = 17;
const V_SOFTMAX: u8 = 18;
const V_COND: u8 = 19;
const V_COST: u8 = 20;
const V_ACT: u8 = 21;
const V_STACK: u8 = 22;

impl Gen {
    pub fn new(seed: u64, p: Profile) -> Gen {
        let mut rng = Rng::new(seed);
        let regime = if rng.chance(p.smooth_pct, 100) { Regime::Smooth } else { Regime::Int };
        // swarm: which actors exist in this run, and their weights
        let mut actors: Vec<(usize, u32)> = Vec::new();
        for (i, w) in p.w.iter().enumerate() {
            if *w == 0 {
                continue;
            }
            // builder and differ always exist; every other actor is present in ~75% of the runs
            if i < 2 || *w >= 40 || rng.chance(3, 4) {
                let jitter = 50 + rng.below(101) as u32; // 50%..150%
                actors.push((i, (*w * jitter / 100).max(1)));
            }
        }
        // vocabulary subset
        let mut vocab: Vec<(u8, u32)> = Vec::new();
        let ring: [(u8, u32); 14] = [(V_ADD, 10), (V_SUB, 6), (V_MUL, 10), (V_NEG, 3), (V_SCALE, 3), (V_SUM, 4), (V_RESHAPE, 3), (V_MATMUL, 7), (V_CONV, 2), (V_RELU, 3), (V_AXPY, 2), (V_COND, 2), (V_ACT, 3), (V_STACK, 2)];
        for (k, w) in ring {
            if matches!(k, V_ADD | V_MUL) || rng.chance(7, 10) {
                vocab.push((k, w));
            }
        }
        if p.custom_pct > 0 && (p.custom_pct >= 50 || rng.chance(p.custom_pct * 2, 100)) {
            vocab.push((V_CUSTOM, if p.custom_pct >= 50 { 120 } else { 12 }));
        }
        if regime == Regime::Smooth {
            for (k, w) in [(V_DIV, 6), (V_RECIP, 3), (V_LN, 3), (V_EXP, 3), (V_POWF, 3), (V_SIGMOID, 4), (V_SOFTMAX, 4), (V_COST, 4)] {
                if rng.chance(7, 10) {
                    vocab.push((k, w));
                }
            }
        }
        // a few base shapes for this run
        let nb = if p.shape == ShapeMode::Narrow { 1 + rng.below(2) } else { 2 + rng.below(3) };
        let mut base_dims = Vec::new();
        for _ in 0..nb {
            let rank = 1 + rng.weighted(&[30, 45, 20, 5]);
            let mut d: Vec<usize> = (0..rank).map(|_| 1 + rng.weighted(&[10, 40, 35, 15])).collect();
            if numel(&d) > 36 {
                d[0] = 1;
            }
            base_dims.push(d);
        }
        let max_events = p.max_events / 2 + rng.below(p.max_events / 2 + 1);
        let faults_enabled = [rng.chance(3, 4), rng.chance(3, 4), rng.chance(3, 4), rng.chance(3, 4)];
        Gen { rng, p, regime, queue: VecDeque::new(), next_slot: 0, emitted: 0, max_events, actors, vocab, base_dims, last_actor: "", faults_enabled, actor_log: Vec::new(), trains_left: 2, train_kind_conv: false, last_stack: None, deep: false, last_batch: None }
    }

    fn fresh_slot(&mut self) -> Slot {
        let s = self.next_slot;
        self.next_slot += 1;
        s
    }

    fn leaf_vals(&mut self, n: usize) -> Vec<f64> {
        (0..n)
            .map(|_| match self.regime {
                Regime::Int => {
                    let v = self.rng.range(1, 3) as f64;
                    if self.rng.chance(2, 5) {
                        -v
                    } else {
                        v
                    }
                }
                Regime::Smooth => {
                    let v = self.rng.range(3, 24) as f64 / 8.0;
                    if self.rng.chance(1, 4) {
                        -v
                    } else {
                        v
                    }
                }
            })
            .collect()
    }

    fn pos_leaf_vals(&mut self, n: usize) -> Vec<f64> {
        (0..n).map(|_| self.rng.range(3, 24) as f64 / 8.0).collect()
    }

    fn leaf_mode(&mut self) -> LeafMode {
        match self.rng.weighted(&[62, 26, 12]) {
            0 => LeafMode::Tracked,
            1 => LeafMode::Plain,
            _ => LeafMode::Started,
        }
    }

    fn new_leaf(&mut self, dims: Vec<usize>) -> (Ev, Slot) {
        let dst = self.fresh_slot();
        let vals = self.leaf_vals(numel(&dims));
        let mode = self.leaf_mode();
        (Ev::Leaf { dst, dims, vals, mode }, dst)
    }

    fn any_live(&mut self, sim: &Sim) -> Option<Slot> {
        let l = sim.live_slots();
        if l.is_empty() {
            None
        } else {
            Some(*self.rng.pick(&l))
        }
    }

    fn live_where<F: Fn(&Sim, Slot) -> bool>(&mut self, sim: &Sim, f: F) -> Option<Slot> {
        let l: Vec<Slot> = sim.live_slots().into_iter().filter(|s| f(sim, *s)).collect();
        if l.is_empty() {
            None
        } else {
            Some(*self.rng.pick(&l))
        }
    }

    fn dims_of(sim: &Sim, s: Slot) -> Vec<usize> {
        sim.g.nodes[sim.node_of(s).unwrap()].dims.clone()
    }

    fn dst_for(&mut self, sim: &Sim, args: &[Slot]) -> Slot {
        // mostly a new variable; sometimes re-bind an operand's variable (c = &c * &a); sometimes overwrite another
        if self.rng.chance(12, 100) {
            *self.rng.pick(args)
        } else if sim.live_slots().len() > 22 {
            *self.rng.pick(&sim.live_slots())
        } else {
            self.fresh_slot()
        }
    }

    /// A shape that combines with `d` under broadcasting (the kind drawn by the run's broadcast rate).
    fn partner_dims(&mut self, d: &[usize]) -> Vec<usize> {
        if !self.rng.chance(self.p.bcast_pct, 100) {
            return d.to_vec();
        }
        match self.rng.weighted(&[28, 12, 24, 12, 8, 8, 8]) {
            0 => vec![*d.last().unwrap()],            // last-dimension vector
            1 => vec![1],                             // scalar-like
            2 => {
                // same rank, some unit dimensions (trailing or inner ones: forward-safe)
                let mut e = d.to_vec();
                let n = e.len();
                let k = self.rng.below(n);
                e[n - 1 - k] = 1;
                if self.rng.chance(1, 3) && n >= 2 {
                    let k2 = self.rng.below(n);
                    e[k2] = 1;
                }
                e
            }
            3 => {
                // leading unit dimension at equal rank
                let mut e = d.to_vec();
                e[0] = 1;
                e
            }
            4 => {
                // lower rank >= 2 (suffix)
                if d.len() >= 3 {
                    d[1..].to_vec()
                } else {
                    vec![*d.last().unwrap()]
                }
            }
            5 => {
                // lower rank AND unit dimensions (a conv-style bias [F,1,1] against [B,F,r,c])
                if d.len() >= 3 {
                    let k = 1 + self.rng.below(d.len() - 2);
                    let mut e = d[k..].to_vec();
                    let n = e.len();
                    let keep = self.rng.below(n);
                    for (i, x) in e.iter_mut().enumerate() {
                        if i != keep && self.rng.chance(2, 3) {
                            *x = 1;
                        }
                    }
                    e
                } else {
                    vec![*d.last().unwrap()]
                }
            }
            _ => {
                // higher rank: the partner is the larger one
                let mut e = vec![1 + self.rng.below(3)];
                e.extend_from_slice(d);
                if numel(&e) > 48 {
                    d.to_vec()
                } else {
                    e
                }
            }
        }
    }

    fn base_shape(&mut self) -> Vec<usize> {
        self.rng.pick(&self.base_dims.clone()).clone()
    }

    fn script(&mut self, sim: &Sim) -> Vec<Reent> {
        let mut s = Vec::new();
        if self.rng.chance(self.p.reent_pct, 100) {
            let n = 1 + self.rng.below(2);
            for _ in 0..n {
                let r = match self.rng.below(5) {
                    4 => Reent::DebugFormat,
                    0 => Reent::FwdOnChildren,
                    1 => Reent::ReadGrad(self.any_live(sim).unwrap_or(0)),
                    2 => Reent::CloneDrop(self.any_live(sim).unwrap_or(0)),
                    _ => Reent::NestedPass,
                };
                s.push(r);
            }
        }
        s
    }

    fn builder(&mut self, sim: &Sim) -> Vec<Ev> {
        let mut out = Vec::new();
        // make sure there is something to work with
        if sim.live_slots().len() < 2 || self.rng.chance(6, 100) {
            let d = self.base_shape();
            let (e, _) = self.new_leaf(d);
            out.push(e);
            return out;
        }
        let w: Vec<u32> = self.vocab.iter().map(|v| v.1).collect();
        let k = self.vocab[self.rng.weighted(&w)].0;
        let x = self.any_live(sim).unwrap();
        let xd = Self::dims_of(sim, x);
        match k {
            V_ADD | V_SUB | V_MUL | V_DIV | V_AXPY | V_COST => {
                let op = match k {
                    V_COST => Op::Cost(if self.rng.chance(1, 2) { CostKind::Mse } else { CostKind::CrossEntropy }),
                    V_ADD => Op::Add,
                    V_SUB => Op::Sub,
                    V_MUL => Op::Mul,
                    V_DIV => Op::Div,
                    _ => Op::Axpy(if self.regime == Regime::Int { self.rng.range(-2, 2) as f64 } else { self.rng.range(-4, 4) as f64 / 2.0 }),
                };
                let y = if self.rng.chance(12, 100) {
                    x // self-product / self-sum
                } else {
                    let want = self.partner_dims(&xd);
                    let share = self.rng.chance(self.p.share_pct, 100);
                    let found = if share { self.live_where(sim, |sm, s| Self::dims_of(sm, s) == want) } else { None };
                    match found {
                        Some(y) => y,
                        None => {
                            if numel(&want) > 48 {
                                x
                            } else {
                                let dst = self.fresh_slot();
                                let vals = if matches!(op, Op::Div) { self.pos_leaf_vals(numel(&want)) } else { self.leaf_vals(numel(&want)) };
                                let mode = self.leaf_mode();
                                out.push(Ev::Leaf { dst, dims: want, vals, mode });
                                dst
                            }
                        }
                    }
                };
                let args = if self.rng.chance(1, 2) || matches!(op, Op::Cost(_)) { vec![x, y] } else { vec![y, x] };
                let dst = self.dst_for(sim, &args);
                out.push(Ev::Build { dst, op, args });
            }
            V_NEG | V_SCALE | V_RELU | V_RECIP | V_LN | V_EXP | V_POWF | V_SIGMOID | V_SOFTMAX => {
                let op = match k {
                    V_NEG => Op::Neg,
                    V_SCALE => Op::Scale(if self.regime == Regime::Int { *self.rng.pick(&[-2.0, 2.0, 3.0, -1.0, 1.0, 1.0, 0.0]) } else { *self.rng.pick(&[0.5, -1.5, 2.0, 0.25, 1.0, 0.0]) }),
                    V_RELU => Op::Relu,
                    V_RECIP => Op::Recip,
                    V_LN => Op::Ln,
                    V_EXP => Op::Exp,
                    V_POWF => Op::Powf(*self.rng.pick(&[2.0, 3.0, 0.5, 1.5, -1.0, 0.0, 1.0])),
                    V_SIGMOID => Op::Sigmoid,
                    _ => Op::Softmax,
                };
                let dst = self.dst_for(sim, &[x]);
                out.push(Ev::Build { dst, op, args: vec![x] });
            }
            V_ACT => {
                let act = if self.regime == Regime::Int { Act::Relu } else { *self.rng.pick(&[Act::Relu, Act::Sigmoid, Act::Softmax]) };
                if self.rng.chance(30, 100) {
                    // the same closure object on an untracked clone first, then on the array itself
                    let d0 = self.fresh_slot();
                    out.push(Ev::Build { dst: d0, op: Op::Activation { act, detach: true }, args: vec![x] });
                    let d1 = self.fresh_slot();
                    out.push(Ev::Build { dst: d1, op: Op::Activation { act, detach: false }, args: vec![x] });
                } else {
                    let dst = self.dst_for(sim, &[x]);
                    out.push(Ev::Build { dst, op: Op::Activation { act, detach: self.rng.chance(1, 2) }, args: vec![x] });
                }
            }
            V_STACK => {
                let same: Vec<Slot> = sim.live_slots().into_iter().filter(|s| Self::dims_of(sim, *s) == xd).collect();
                let n = 1 + self.rng.below(3);
                let args: Vec<Slot> = (0..n).map(|i| if i == 0 { x } else { *self.rng.pick(&same) }).collect();
                if numel(&xd) * n <= 48 {
                    let dst = self.fresh_slot();
                    out.push(Ev::Build { dst, op: Op::Stack { views: self.rng.chance(1, 2) }, args });
                }
            }
            V_SUM => {
                // sum(0) is not generated: whether "the identity" returns the same node or a copy is not
                // fixed by any property, and the shadow would have to assume one of the two
                let kk = match self.rng.weighted(&[30, 45, 25]) {
                    0 => 1 + self.rng.below(xd.len() + 1), // also more dimensions than the array has
                    1 => 1,
                    _ => xd.len(),
                };
                let dst = self.dst_for(sim, &[x]);
                out.push(Ev::Build { dst, op: Op::Sum(kk), args: vec![x] });
            }
            V_RESHAPE => {
                let n = numel(&xd);
                let mut cands: Vec<Vec<usize>> = vec![vec![n], vec![1, n], vec![n, 1]];
                for a in 2..n {
                    if n % a == 0 {
                        cands.push(vec![a, n / a]);
                    }
                }
                let d = self.rng.pick(&cands).clone();
                let dst = self.dst_for(sim, &[x]);
                out.push(Ev::Build { dst, op: Op::Reshape(d), args: vec![x] });
            }
            V_MATMUL => {
                // a: a live matrix (or a fresh one), b: fresh or live compatible
                let (a, ad) = if xd.len() >= 2 && xd.len() <= 3 {
                    (x, xd.clone())
                } else if xd.len() == 1 && self.rng.chance(1, 2) {
                    (x, xd.clone()) // one-row form
                } else {
                    let d = vec![1 + self.rng.below(3), 1 + self.rng.below(3)];
                    let (e, s) = self.new_leaf(d.clone());
                    out.push(e);
                    (s, d)
                };
                let ta = ad.len() >= 2 && self.rng.chance(1, 4);
                let tb = self.rng.chance(1, 3);
                let (rows, inner) = if ad.len() == 1 {
                    (1, ad[0])
                } else if ta {
                    (ad[ad.len() - 1], ad[ad.len() - 2])
                } else {
                    (ad[ad.len() - 2], ad[ad.len() - 1])
                };
                let cols = 1 + self.rng.below(3);
                let mut bd = if tb { vec![cols, inner] } else { vec![inner, cols] };
                if ad.len() == 3 && self.rng.chance(1, 2) {
                    // batched right operand with equal leading dimension
                    bd.insert(0, ad[0]);
                } else if ad.len() == 2 && self.rng.chance(1, 4) {
                    // a left operand shared by a whole batch of right operands
                    bd.insert(0, 2 + self.rng.below(2));
                }
                let share = self.rng.chance(self.p.share_pct, 100);
                let b = match if share { self.live_where(sim, |sm, s| Self::dims_of(sm, s) == bd) } else { None } {
                    Some(b) => b,
                    None => {
                        let (e, s) = self.new_leaf(bd.clone());
                        out.push(e);
                        s
                    }
                };
                let mut args = vec![a, b];
                if self.rng.chance(1, 2) {
                    let lead: Vec<usize> = if ad.len() == 3 { vec![ad[0]] } else if bd.len() == 3 { vec![bd[0]] } else { vec![] };
                    let cd = match self.rng.weighted(&[40, 18, 14, 12, 16]) {
                        0 => vec![cols],
                        1 => vec![rows, cols],
                        2 => vec![1, cols],
                        3 => vec![1],
                        _ => {
                            // an additive term with its own leading (batch) dimensions
                            let mut d = if lead.is_empty() || self.rng.chance(1, 3) { vec![1] } else { lead.clone() };
                            d.push(if self.rng.chance(1, 2) { 1 } else { rows });
                            d.push(cols);
                            if lead.is_empty() {
                                d.remove(0);
                            }
                            d
                        }
                    };
                    let c = match if share { self.live_where(sim, |sm, s| Self::dims_of(sm, s) == cd) } else { None } {
                        Some(c) => c,
                        None => {
                            let (e, s) = self.new_leaf(cd);
                            out.push(e);
                            s
                        }
                    };
                    args.push(c);
                }
                let dst = self.dst_for(sim, &args);
                out.push(Ev::Build { dst, op: Op::Matmul { ta, tb }, args });
            }
            V_CONV => {
                let depth = 1 + self.rng.below(2);
                let (fr, fc) = (1 + self.rng.below(2), 1 + self.rng.below(2));
                let (sr, sc) = (1 + self.rng.below(2), 1 + self.rng.below(2));
                let rows = fr + self.rng.below(3);
                let cols = fc + self.rng.below(3);
                let count = 1 + self.rng.below(2);
                // sometimes a batch of images
                let id = if self.rng.chance(30, 100) { vec![1 + self.rng.below(3), depth, rows, cols] } else { vec![depth, rows, cols] };
                let img = match self.live_where(sim, |sm, s| Self::dims_of(sm, s) == id) {
                    Some(s) if self.rng.chance(1, 2) => s,
                    _ => {
                        let (e, s) = self.new_leaf(id);
                        out.push(e);
                        s
                    }
                };
                let (e, fil) = self.new_leaf(vec![count, depth, fr, fc]);
                out.push(e);
                let dst = self.fresh_slot();
                out.push(Ev::Build { dst, op: Op::Conv { sr, sc }, args: vec![img, fil] });
            }
            V_CUSTOM => {
                let same: Vec<Slot> = sim.live_slots().into_iter().filter(|s| Self::dims_of(sim, *s) == xd).collect();
                let script = self.script(sim);
                let (kind, args, coef) = match self.rng.weighted(&[55, 35, 10]) {
                    0 => {
                        let n = 1 + self.rng.weighted(&[20, 45, 25, 10]);
                        let args: Vec<Slot> = (0..n).map(|i| if i == 0 { x } else { *self.rng.pick(&same) }).collect();
                        let coef: Vec<f64> = (0..n).map(|_| *self.rng.pick(&[1.0, 1.0, -1.0, 2.0, 0.5, -2.0])).map(|c| if self.p.integer_only && c == 0.5 { 3.0 } else { c }).collect();
                        (CustomKind::Lin, args, coef)
                    }
                    1 => (
                        match self.rng.weighted(&[55, 25, 20]) {
                            0 => CustomKind::Prod2,
                            1 => CustomKind::Prod2Crate,
                            _ => CustomKind::CrateFwdNoBwd,
                        },
                        vec![x, *self.rng.pick(&same)],
                        vec![],
                    ),
                    _ => (CustomKind::NestedSq, vec![x], vec![]),
                };
                let mut args = args;
                self.rng.shuffle(&mut args);
                let dst = self.dst_for(sim, &args);
                out.push(Ev::Build { dst, op: Op::Custom { kind, coef, script }, args });
            }
            V_COND => {
                let same: Vec<Slot> = sim.live_slots().into_iter().filter(|s| Self::dims_of(sim, *s) == xd).collect();
                let y = *self.rng.pick(&same);
                let dst = self.dst_for(sim, &[x]);
                let thresh = if self.regime == Regime::Int { self.rng.range(-4, 12) as f64 + 0.5 } else { self.rng.range(-2, 6) as f64 + 0.0625 };
                out.push(Ev::CondBuild { cond: x, thresh, dst, then: (Op::Mul, vec![x, y]), otherwise: (Op::Add, vec![x, y]) });
            }
            _ => {}
        }
        out
    }

    fn seed_for(&mut self, n: usize) -> Seed {
        match self.rng.weighted(&[35, 15, 50]) {
            0 => Seed::None,
            1 => Seed::Ones,
            _ => Seed::Vals(
                (0..n)
                    .map(|_| match self.regime {
                        Regime::Int => self.rng.range(-2, 3) as f64,
                        Regime::Smooth => self.rng.range(-12, 12) as f64 / 4.0,
                    })
                    .collect(),
            ),
        }
    }

    fn differ(&mut self, sim: &Sim) -> Vec<Ev> {
        // prefer results with a graph; sometimes an interior node, a leaf or a clone
        let with_graph = self.live_where(sim, |sm, s| sm.g.nodes[sm.node_of(s).unwrap()].has_graph);
        let root = match (with_graph, self.rng.chance(88, 100)) {
            (Some(r), true) => r,
            _ => match self.any_live(sim) {
                Some(r) => r,
                None => return vec![],
            },
        };
        let n = numel(&Self::dims_of(sim, root));
        let rd = Self::dims_of(sim, root);
        let seed = if self.rng.chance(6, 100) {
            // the seed is a clone of a live array of the root's shape (often the root itself)
            let same: Vec<Slot> = sim.live_slots().into_iter().filter(|s| Self::dims_of(sim, *s) == rd).collect();
            Seed::FromSlot(if self.rng.chance(1, 2) { root } else { *self.rng.pick(&same) })
        } else {
            self.seed_for(n)
        };
        let via_clone = self.faults_enabled[0] && self.rng.chance(15, 100);
        vec![Ev::Pass { root, seed, via_clone }]
    }

    fn graduser(&mut self, sim: &Sim) -> Vec<Ev> {
        let s = match self.any_live(sim) {
            Some(s) => s,
            None => return vec![],
        };
        if self.rng.chance(8, 100) {
            // the user stores a gradient of their own (clipping, weight decay, ...)
            let n = numel(&Self::dims_of(sim, s));
            let vals = self.leaf_vals(n);
            return vec![Ev::GradSet { slot: s, vals, flat: false }];
        }
        if self.rng.chance(55, 100) {
            vec![Ev::GradRead { slot: s, via_clone: self.rng.chance(1, 4) }]
        } else if self.rng.chance(1, 12) {
            vec![Ev::DropHeld]
        } else {
            let how = *self.rng.pick(&[ClearHow::Replace, ClearHow::MutTake, ClearHow::MutNone]);
            // prefer slots that hold a gradient
            let with = self.live_where(sim, |sm, s| sm.grad_obs.get(&sm.node_of(s).unwrap()).map(|g| g.is_some()).unwrap_or(false));
            vec![Ev::GradClear { slot: with.unwrap_or(s), how }]
        }
    }

    fn lifetime(&mut self, sim: &Sim) -> Vec<Ev> {
        let s = match self.any_live(sim) {
            Some(s) => s,
            None => return vec![],
        };
        match self.rng.weighted(&[35, 35, 10, 20]) {
            0 => {
                let dst = if self.rng.chance(3, 4) { self.fresh_slot() } else { self.any_live(sim).unwrap() };
                vec![Ev::CloneTo { src: s, dst }]
            }
            1 => vec![Ev::DropSlot { slot: s }],
            2 => vec![Ev::Swap { a: s, b: self.any_live(sim).unwrap() }],
            _ => vec![Ev::Rebind { slot: s }],
        }
    }

    fn flagger(&mut self, sim: &Sim) -> Vec<Ev> {
        let s = match self.any_live(sim) {
            Some(s) => s,
            None => return vec![],
        };
        let f = *self.rng.pick(&[FlagOp::Start, FlagOp::Stop, FlagOp::Stop, FlagOp::Tracked, FlagOp::Untracked]);
        if self.rng.chance(40, 100) {
            let dst = self.fresh_slot();
            vec![Ev::FlagClone { src: s, dst, f }]
        } else {
            vec![Ev::Flag { slot: s, f }]
        }
    }

    fn optimizer(&mut self, sim: &Sim) -> Vec<Ev> {
        // parameters: leaves (any shapes); which of them hold a gradient is whatever the history produced
        // parameters are usually leaves; sometimes a "parameter" is itself the result of a tracked operation
        // (a hand-written step): it holds a gradient like any other array and is replaced like any other
        let with_results = self.rng.chance(12, 100);
        let leaves: Vec<Slot> = sim.live_slots().into_iter().filter(|s| with_results || !sim.g.nodes[sim.node_of(*s).unwrap()].has_graph).collect();
        if leaves.is_empty() {
            return vec![];
        }
        let mut uniq: Vec<Slot> = Vec::new();
        let mut seen_nodes = std::collections::BTreeSet::new();
        let mut l = leaves.clone();
        self.rng.shuffle(&mut l);
        let want = 1 + self.rng.weighted(&[10, 20, 30, 20, 12, 8]);
        let allow_alias = self.rng.chance(12, 100);
        for s in l {
            // two handles of one node in one list share one gradient cell: whichever comes first consumes
            // the gradient, the later one then holds none and is left untouched (generated rarely)
            if seen_nodes.insert(sim.node_of(s).unwrap()) || allow_alias {
                uniq.push(s);
            }
            if uniq.len() >= want {
                break;
            }
        }
        let lr = match self.regime {
            Regime::Int => {
                let l = *self.rng.pick(&[1.0, 2.0, 0.5, 0.25, 0.0]);
                if self.p.integer_only && l < 1.0 && l > 0.0 {
                    1.0
                } else {
                    l
                }
            }
            Regime::Smooth => *self.rng.pick(&[0.5, 0.125, 0.0625, 1.0, 0.0]),
        };
        // sometimes one of two persistent optimizer objects, sometimes a fresh one; sometimes observers keep the old handles
        let opt = if self.rng.chance(55, 100) { Some(self.rng.below(2)) } else { None };
        let keep_stale = self.rng.chance(1, 2);
        vec![Ev::Update { slots: uniq, lr, opt, keep_stale }]
    }

    fn retirer(&mut self, sim: &Sim) -> Vec<Ev> {
        // prefer leaves whose derived results are all gone; sometimes probe one that is still pinned (control)
        let handles = sim.handle_nodes();
        let free = self.live_where(sim, |sm, s| {
            let n = sm.node_of(s).unwrap();
            let cnt = handles.iter().filter(|h| **h == n).count();
            !sm.g.nodes[n].has_graph && cnt == 1 && !handles.iter().any(|h| sm.g.ancestry(*h).contains(&n))
        });
        match (free, self.rng.chance(80, 100)) {
            (Some(s), true) => vec![Ev::Retire { slot: s }],
            _ => {
                // drop a result to make progress towards quiescence, or probe a pinned one
                if self.rng.chance(1, 4) {
                    match self.any_live(sim) {
                        Some(s) => vec![Ev::Retire { slot: s }],
                        None => vec![],
                    }
                } else {
                    match self.live_where(sim, |sm, s| sm.g.nodes[sm.node_of(s).unwrap()].has_graph) {
                        Some(s) => vec![Ev::DropSlot { slot: s }],
                        None => vec![Ev::DropHeld],
                    }
                }
            }
        }
    }

    fn dyadic(&mut self, lo: i64, hi: i64, den: f64) -> f64 {
        self.rng.range(lo, hi) as f64 / den
    }

    fn layer_stack(&mut self) -> (Vec<LayerSpec>, CostKind) {
        let cost = if self.rng.chance(1, 2) { CostKind::Mse } else { CostKind::CrossEntropy };
        let conv = self.rng.chance(30, 100);
        self.train_kind_conv = conv;
        let n = 1 + self.rng.weighted(&[30, 50, 20]);
        let mut layers = Vec::new();
        if conv {
            let n = n.min(2);
            let mut depth = 1 + self.rng.below(2);
            for i in 0..n {
                let count = 1 + self.rng.below(2);
                let (fr, fc) = (1 + self.rng.below(2), 1 + self.rng.below(2));
                let (sr, sc) = (1 + self.rng.below(2), 1 + self.rng.below(2));
                let last = i + 1 == n;
                let act = self.pick_act(last, cost);
                let w = (0..count * depth * fr * fc).map(|_| self.dyadic(-8, 8, 8.0)).collect();
                let b = (0..count).map(|_| self.dyadic(-8, 8, 8.0)).collect();
                layers.push(LayerSpec::Conv { count, depth, fr, fc, sr, sc, act, w, b });
                depth = count;
            }
        } else {
            let mut inp = 1 + self.rng.below(4);
            for i in 0..n {
                let out = 1 + self.rng.below(4);
                let last = i + 1 == n;
                let act = self.pick_act(last, cost);
                let w = (0..inp * out).map(|_| self.dyadic(-8, 8, 8.0)).collect();
                let b = (0..out).map(|_| self.dyadic(-8, 8, 8.0)).collect();
                layers.push(LayerSpec::Dense { inp, out, act, w, b });
                inp = out;
            }
        }
        (layers, cost)
    }

    fn pick_act(&mut self, last: bool, cost: CostKind) -> Act {
        if last && cost == CostKind::CrossEntropy {
            if self.rng.chance(1, 2) {
                Act::Sigmoid
            } else {
                Act::Softmax
            }
        } else {
            *self.rng.pick(&[Act::None, Act::Relu, Act::Sigmoid, Act::Sigmoid, Act::Softmax])
        }
    }

    fn batch_for(&mut self, sim: &Sim) -> Option<(Vec<usize>, Vec<f64>)> {
        let first = sim.train_first_layer.as_ref()?;
        // sometimes exactly the previous batch again
        if let Some(b) = &self.last_batch {
            let fits = match first {
                LayerSpec::Dense { inp, .. } => b.0.last() == Some(inp),
                LayerSpec::Conv { depth, .. } => b.0.len() >= 3 && b.0[b.0.len() - 3] == *depth,
            };
            if fits && self.rng.chance(15, 100) {
                return Some(b.clone());
            }
        }
        let r = self.batch_fresh(first.clone());
        self.last_batch = r.clone();
        r
    }

    fn batch_fresh(&mut self, first: LayerSpec) -> Option<(Vec<usize>, Vec<f64>)> {
        let first = &first;
        let dims = match first {
            LayerSpec::Dense { inp, .. } => match self.rng.weighted(&[25, 25, 50]) {
                0 => vec![*inp],
                1 => vec![1, *inp],
                _ => vec![2 + self.rng.below(3), *inp],
            },
            LayerSpec::Conv { depth, fr, fc, .. } => {
                // large enough for a second layer of 2x2 filters with stride 2 after a stride-2 first layer
                let r = fr + 2 + self.rng.below(4);
                let c = fc + 2 + self.rng.below(4);
                if self.rng.chance(30, 100) {
                    // a batch of images
                    vec![1 + self.rng.below(3), *depth, r, c]
                } else {
                    vec![*depth, r, c]
                }
            }
        };
        let n = numel(&dims);
        let vals = (0..n).map(|_| self.dyadic(-8, 8, 4.0)).collect();
        Some((dims, vals))
    }

    fn trainer(&mut self, sim: &Sim) -> Vec<Ev> {
        match sim.train_phase {
            0 => {
                if self.trains_left == 0 {
                    return vec![];
                }
                self.trains_left -= 1;
                // the second model of a run often has the same architecture (fresh values) as the first
                let (layers, cost) = match (&self.last_stack, self.rng.chance(60, 100)) {
                    (Some((l, c)), true) => {
                        let c = *c;
                        let mut l = l.clone();
                        for spec in l.iter_mut() {
                            match spec {
                                LayerSpec::Dense { w, b, .. } | LayerSpec::Conv { w, b, .. } => {
                                    for x in w.iter_mut().chain(b.iter_mut()) {
                                        *x = self.rng.range(-8, 8) as f64 / 8.0;
                                    }
                                }
                            }
                        }
                        (l, c)
                    }
                    _ => self.layer_stack(),
                };
                self.last_stack = Some((layers.clone(), cost));
                let lr = *self.rng.pick(&[0.5, 0.125, 0.0625, 0.25, 1.0, 0.0]);
                let opt = if self.rng.chance(1, 2) { Some(7) } else { None };
                let mut v = vec![Ev::TrainOpen { layers, cost, lr, opt }];
                if self.rng.chance(15, 100) {
                    v.push(Ev::Freeze { layer: self.rng.below(2), param: self.rng.below(2), on: true });
                }
                v.push(Ev::ModelOpen);
                v
            }
            1 => match self.rng.weighted(&[60, 18, 10, 12]) {
                0 => vec![Ev::ModelOpen],
                3 => vec![Ev::Freeze { layer: self.rng.below(sim.train_layer_count.max(1)), param: self.rng.below(2), on: self.rng.chance(2, 3) }],
                1 => {
                    let n = sim.train_param_count;
                    let dst: Vec<Slot> = (0..n).map(|_| self.fresh_slot()).collect();
                    vec![Ev::TakeParams { dst }]
                }
                _ => vec![Ev::TrainClose],
            },
            2 | 3 => {
                if sim.train_phase == 2 && self.rng.chance(8, 100) {
                    return vec![Ev::ModelClose];
                }
                if sim.train_phase == 3 && !self.rng.chance(8, 100) {
                    // backward with a target of the output's shape
                    let od = match &sim.train_out_dims {
                        Some(d) => d.clone(),
                        None => return vec![],
                    };
                    // sometimes one target row broadcast against the whole batch, or a flat target against a
                    // column output (which broadcasts to an outer difference)
                    let od = if od.len() == 2 && od[0] > 1 && od[1] == 1 && self.rng.chance(15, 100) {
                        vec![od[0]]
                    } else if od.len() >= 2 && od[0] > 1 && self.rng.chance(15, 100) {
                        if self.rng.chance(1, 2) {
                            od[1..].to_vec()
                        } else {
                            let mut d = od.clone();
                            d[0] = 1;
                            d
                        }
                    } else {
                        od
                    };
                    let n = numel(&od);
                    let vals = (0..n).map(|_| self.dyadic(0, 4, 4.0)).collect();
                    return vec![Ev::Bwd { dims: od, vals, target_slot: if self.rng.chance(25, 100) { Some(self.fresh_slot()) } else { None } }];
                }
                match self.batch_for(sim) {
                    Some((dims, vals)) => {
                        let input_slot = if self.rng.chance(30, 100) { Some(self.fresh_slot()) } else { None };
                        vec![Ev::Fwd { dims, vals, keep_output: self.rng.chance(25, 100), twice: self.rng.chance(6, 100), input_slot }]
                    }
                    None => vec![],
                }
            }
            _ => {
                // sometimes the model is dropped after backward and a new one (same layers) does the update
                if self.rng.chance(5, 100) {
                    return vec![Ev::ModelClose, Ev::ModelOpen];
                }
                // sometimes a second target for the same output
                if !sim.train_eval_pending && self.rng.chance(8, 100) {
                    if let Some(od) = sim.train_out_dims.clone() {
                        let n = numel(&od);
                        let vals = (0..n).map(|_| self.dyadic(0, 4, 4.0)).collect();
                        return vec![Ev::Bwd { dims: od, vals, target_slot: None }];
                    }
                }
                // after an evaluation forward: often a further backward (gradients accumulated over two batches)
                if sim.train_eval_pending && self.rng.chance(1, 2) {
                    if let Some(od) = sim.train_out_dims.clone() {
                        let n = numel(&od);
                        let vals = (0..n).map(|_| self.dyadic(0, 4, 4.0)).collect();
                        return vec![Ev::Bwd { dims: od, vals, target_slot: if self.rng.chance(25, 100) { Some(self.fresh_slot()) } else { None } }];
                    }
                }
                // sometimes an evaluation forward between backward and update
                if self.rng.chance(12, 100) {
                    if let Some((dims, vals)) = self.batch_for(sim) {
                        let input_slot = if self.rng.chance(30, 100) { Some(self.fresh_slot()) } else { None };
                        return vec![Ev::Fwd { dims, vals, keep_output: self.rng.chance(20, 100), twice: false, input_slot }];
                    }
                }
                vec![Ev::Upd]
            }
        }
    }

    /// Structurally interesting motifs (shapes and values still seeded), so that the scenarios the
    /// properties name are reached in every batch rather than by luck.
    fn scenarist(&mut self, _sim: &Sim) -> Vec<Ev> {
        let mut v = Vec::new();
        match self.rng.weighted(&[18, 18, 14, 22, 16, 10, 6, 5, 5]) {
            0 => {
                // a view taken while the array was untracked; later the array is trained and updated
                let n = 2 + self.rng.below(5);
                let l = self.fresh_slot();
                let view = self.fresh_slot();
                let r = self.fresh_slot();
                let vals = self.leaf_vals(n);
                v.push(Ev::Leaf { dst: l, dims: vec![n], vals, mode: LeafMode::Plain });
                v.push(Ev::Build { dst: view, op: Op::Reshape(vec![1, n]), args: vec![l] });
                v.push(Ev::Flag { slot: l, f: FlagOp::Tracked });
                v.push(Ev::Build { dst: r, op: Op::Mul, args: vec![l, l] });
                v.push(Ev::Pass { root: r, seed: Seed::None, via_clone: false });
                v.push(Ev::DropSlot { slot: r });
                let opt = if self.rng.chance(1, 2) { Some(self.rng.below(2)) } else { None };
                v.push(Ev::Update { slots: vec![l], lr: if self.regime == Regime::Int { 1.0 } else { 0.5 }, opt, keep_stale: false });
            }
            1 => {
                // a bias shared by two dense-style products over a batch, then an update of all parameters
                let (bt, n) = (2 + self.rng.below(3), 1 + self.rng.below(3));
                let (x, w, w2, b) = (self.fresh_slot(), self.fresh_slot(), self.fresh_slot(), self.fresh_slot());
                let (h, y) = (self.fresh_slot(), self.fresh_slot());
                let xv = self.leaf_vals(bt * n);
                let wv = self.leaf_vals(n * n);
                let w2v = self.leaf_vals(n * n);
                let bv = self.leaf_vals(n);
                v.push(Ev::Leaf { dst: x, dims: vec![bt, n], vals: xv, mode: LeafMode::Plain });
                v.push(Ev::Leaf { dst: w, dims: vec![n, n], vals: wv, mode: LeafMode::Tracked });
                v.push(Ev::Leaf { dst: w2, dims: vec![n, n], vals: w2v, mode: LeafMode::Tracked });
                v.push(Ev::Leaf { dst: b, dims: vec![n], vals: bv, mode: LeafMode::Tracked });
                v.push(Ev::Build { dst: h, op: Op::Matmul { ta: false, tb: true }, args: vec![x, w, b] });
                v.push(Ev::Build { dst: y, op: Op::Matmul { ta: false, tb: true }, args: vec![h, w2, b] });
                v.push(Ev::Pass { root: y, seed: Seed::None, via_clone: false });
                let mut ps = vec![b, w, w2];
                self.rng.shuffle(&mut ps);
                v.push(Ev::Update { slots: ps, lr: if self.regime == Regime::Int { 1.0 } else { 0.25 }, opt: Some(self.rng.below(2)), keep_stale: self.rng.chance(1, 2) });
            }
            2 => {
                // interior node, then an enclosing result, then the interior node again
                let n = 1 + self.rng.below(4);
                let (a, b, c, d) = (self.fresh_slot(), self.fresh_slot(), self.fresh_slot(), self.fresh_slot());
                let av = self.leaf_vals(n);
                let bv = self.leaf_vals(n);
                v.push(Ev::Leaf { dst: a, dims: vec![n], vals: av, mode: LeafMode::Tracked });
                v.push(Ev::Leaf { dst: b, dims: vec![n], vals: bv, mode: LeafMode::Tracked });
                v.push(Ev::Build { dst: c, op: Op::Mul, args: vec![a, b] });
                v.push(Ev::Build { dst: d, op: Op::Add, args: vec![c, a] });
                let mut order = vec![c, d, c, d];
                self.rng.shuffle(&mut order);
                for r in order.into_iter().take(2 + self.rng.below(3)) {
                    let seed = self.seed_for(n);
                    v.push(Ev::Pass { root: r, seed, via_clone: self.rng.chance(1, 5) });
                }
            }
            3 => {
                // a chain in which every level consumes the previous one twice (2^depth paths); the
                // self-average keeps values and adjoints at exactly 1x
                let depth = match self.rng.weighted(&[62, 28, 8, 2]) {
                    0 => 4 + self.rng.below(12),
                    1 => 16 + self.rng.below(48),
                    2 => 64 + self.rng.below(64),
                    _ => 128 + self.rng.below(if self.deep { 896 } else { 128 }),
                };
                let n = 1 + self.rng.below(3);
                let mut cur = self.fresh_slot();
                let vals = self.leaf_vals(n);
                v.push(Ev::Leaf { dst: cur, dims: vec![n], vals, mode: LeafMode::Tracked });
                let custom = self.p.custom_pct >= 50 || self.rng.chance(1, 2);
                for _ in 0..depth {
                    let next = if self.rng.chance(1, 3) { cur } else { self.fresh_slot() };
                    let op = if custom { Op::Custom { kind: CustomKind::Lin, coef: vec![0.5, 0.5], script: vec![] } } else { Op::Axpy(1.0) };
                    if custom {
                        v.push(Ev::Build { dst: next, op, args: vec![cur, cur] });
                    } else {
                        // (c + c) * 0.5 with built-in operations
                        let t = self.fresh_slot();
                        v.push(Ev::Build { dst: t, op, args: vec![cur, cur] });
                        v.push(Ev::Build { dst: next, op: Op::Scale(0.5), args: vec![t] });
                        v.push(Ev::DropSlot { slot: t });
                    }
                    if next != cur && self.rng.chance(1, 2) {
                        v.push(Ev::DropSlot { slot: cur });
                    }
                    cur = next;
                }
                let seed = self.seed_for(n);
                v.push(Ev::Pass { root: cur, seed, via_clone: false });
            }
            5 => {
                // wide fan-out: one array consumed by very many operations of one graph
                let n = 1 + self.rng.below(2);
                let fan = if self.rng.chance(30, 100) { 250 + self.rng.below(60) } else { 8 + self.rng.below(40) };
                let x = self.fresh_slot();
                let vals = self.leaf_vals(n);
                v.push(Ev::Leaf { dst: x, dims: vec![n], vals, mode: LeafMode::Tracked });
                let root = if self.rng.chance(1, 2) {
                    // one n-ary user operation whose operands are all the same array
                    let r = self.fresh_slot();
                    let coef: Vec<f64> = (0..fan).map(|i| if i % 3 == 0 { -1.0 } else { 1.0 }).collect();
                    v.push(Ev::Build { dst: r, op: Op::Custom { kind: CustomKind::Lin, coef, script: vec![] }, args: vec![x; fan] });
                    r
                } else {
                    // an accumulation loop: acc = acc + x, `fan` times
                    let acc = self.fresh_slot();
                    v.push(Ev::Build { dst: acc, op: Op::Add, args: vec![x, x] });
                    for i in 0..fan {
                        let op = if i % 2 == 0 { Op::Add } else { Op::Sub };
                        v.push(Ev::Build { dst: acc, op, args: vec![acc, x] });
                    }
                    acc
                };
                let seed = self.seed_for(n);
                v.push(Ev::Pass { root, seed, via_clone: false });
            }
            7 => {
                // very many parameters (more than any machine word has bits), some of them frozen anywhere
                let count = 65 + self.rng.below(16);
                let mut ps = Vec::new();
                for _ in 0..count {
                    let p = self.fresh_slot();
                    let n = 1 + self.rng.below(2);
                    let vals = self.leaf_vals(n);
                    v.push(Ev::Leaf { dst: p, dims: vec![n], vals, mode: if self.rng.chance(85, 100) { LeafMode::Tracked } else { LeafMode::Plain } });
                    ps.push((p, n));
                }
                // a loss that touches most of them: sums of products within groups of equal shape
                let mut roots = Vec::new();
                for n in 1..=2 {
                    let group: Vec<Slot> = ps.iter().filter(|x| x.1 == n && self.rng.chance(9, 10)).map(|x| x.0).collect();
                    if group.len() >= 2 {
                        let r = self.fresh_slot();
                        let coef: Vec<f64> = group.iter().enumerate().map(|(i, _)| if i % 4 == 0 { 2.0 } else { 1.0 }).collect();
                        v.push(Ev::Build { dst: r, op: Op::Custom { kind: CustomKind::Lin, coef, script: vec![] }, args: group });
                        roots.push(r);
                    }
                }
                for r in roots {
                    v.push(Ev::Pass { root: r, seed: Seed::None, via_clone: false });
                }
                let slots: Vec<Slot> = ps.iter().map(|x| x.0).collect();
                v.push(Ev::Update { slots, lr: if self.regime == Regime::Int { 1.0 } else { 0.5 }, opt: Some(self.rng.below(2)), keep_stale: false });
            }
            8 => {
                // the user replaces a parameter's gradient by a flat array of the same element count, then updates
                let d = vec![2, 1 + self.rng.below(3)];
                let n = numel(&d);
                let (p, q, r) = (self.fresh_slot(), self.fresh_slot(), self.fresh_slot());
                let pv = self.leaf_vals(n);
                let qv = self.leaf_vals(n);
                v.push(Ev::Leaf { dst: p, dims: d.clone(), vals: pv, mode: LeafMode::Tracked });
                v.push(Ev::Leaf { dst: q, dims: d, vals: qv, mode: LeafMode::Tracked });
                v.push(Ev::Build { dst: r, op: Op::Mul, args: vec![p, q] });
                v.push(Ev::Pass { root: r, seed: Seed::None, via_clone: false });
                let gv = self.leaf_vals(n);
                v.push(Ev::GradSet { slot: p, vals: gv, flat: true });
                v.push(Ev::Update { slots: if self.rng.chance(1, 2) { vec![p, q] } else { vec![q, p] }, lr: if self.regime == Regime::Int { 1.0 } else { 0.25 }, opt: None, keep_stale: self.rng.chance(1, 2) });
            }
            6 => {
                // a long vector (beyond any small block size) reduced and differentiated
                let n = 129 + self.rng.below(180);
                let (x, y, r) = (self.fresh_slot(), self.fresh_slot(), self.fresh_slot());
                let vals = self.leaf_vals(n);
                v.push(Ev::Leaf { dst: x, dims: vec![n], vals, mode: LeafMode::Tracked });
                if self.rng.chance(1, 2) {
                    v.push(Ev::Build { dst: y, op: Op::Mul, args: vec![x, x] });
                } else {
                    v.push(Ev::Build { dst: y, op: Op::Scale(if self.regime == Regime::Int { 2.0 } else { 0.5 }), args: vec![x] });
                }
                v.push(Ev::Build { dst: r, op: Op::Sum(1), args: vec![y] });
                let seed = self.seed_for(1);
                v.push(Ev::Pass { root: r, seed, via_clone: false });
            }
            _ => {
                // a ladder of diamonds made of user operations with permuted operands
                let n = 1 + self.rng.below(3);
                let rungs = 2 + self.rng.below(5);
                let mut cur = self.fresh_slot();
                let vals = self.leaf_vals(n);
                v.push(Ev::Leaf { dst: cur, dims: vec![n], vals, mode: LeafMode::Tracked });
                for _ in 0..rungs {
                    let (l, r, j) = (self.fresh_slot(), self.fresh_slot(), self.fresh_slot());
                    v.push(Ev::Build { dst: l, op: Op::Custom { kind: CustomKind::Lin, coef: vec![2.0], script: vec![] }, args: vec![cur] });
                    v.push(Ev::Build { dst: r, op: Op::Custom { kind: CustomKind::Lin, coef: vec![-1.0, 1.0], script: vec![] }, args: vec![cur, cur] });
                    let mut args = vec![l, r, cur];
                    self.rng.shuffle(&mut args);
                    v.push(Ev::Build { dst: j, op: Op::Custom { kind: CustomKind::Lin, coef: vec![1.0, 1.0, 1.0], script: self.script(_sim) }, args });
                    cur = j;
                }
                let seed = self.seed_for(n);
                v.push(Ev::Pass { root: cur, seed, via_clone: false });
            }
        }
        v
    }

    fn refuser(&mut self, sim: &Sim) -> Vec<Ev> {
        let a = match self.any_live(sim) {
            Some(s) => s,
            None => return vec![],
        };
        let ad = Self::dims_of(sim, a);
        match self.rng.below(4) {
            0 => {
                let mut d = ad.clone();
                let k = d.len() - 1;
                d[k] += 1 + self.rng.below(2);
                if ad[k] == 1 {
                    d[k] = 1;
                    d.insert(0, 2);
                    return vec![Ev::Refuse(Refuse::ZeroDim(vec![2, 0]))];
                }
                let (e, s) = self.new_leaf(d);
                vec![e, Ev::Refuse(Refuse::Elementwise(a, s))]
            }
            1 => {
                if ad.len() < 2 {
                    return vec![Ev::Refuse(Refuse::ZeroDim(vec![0]))];
                }
                let d = vec![ad[ad.len() - 1] + 1, 2];
                let (e, s) = self.new_leaf(d);
                vec![e, Ev::Refuse(Refuse::MatmulInner(a, s))]
            }
            2 => vec![Ev::Refuse(Refuse::ReshapeCount(a, vec![numel(&ad) + 1]))],
            _ => vec![Ev::Refuse(Refuse::ZeroDim(vec![1 + self.rng.below(3), 0]))],
        }
    }

    /// Next event, or None when the run's budget is used up.
    pub fn next_event(&mut self, sim: &Sim) -> Option<Ev> {
        if let Some((e, a)) = self.queue.pop_front() {
            self.last_actor = a;
            self.emitted += 1;
            return Some(e);
        }
        if self.emitted >= self.max_events {
            return None;
        }
        for _ in 0..20 {
            let w: Vec<u32> = self.actors.iter().map(|a| a.1).collect();
            let ai = self.actors[self.rng.weighted(&w)].0;
            let evs = match ai {
                0 => self.builder(sim),
                1 => self.differ(sim),
                2 => self.graduser(sim),
                3 => self.lifetime(sim),
                4 => self.flagger(sim),
                5 => self.optimizer(sim),
                6 => self.retirer(sim),
                7 => self.refuser(sim),
                8 => self.trainer(sim),
                _ => self.scenarist(sim),
            };
            if evs.is_empty() {
                continue;
            }
            for e in evs {
                self.queue.push_back((e, ACTORS[ai]));
            }
            let (e, a) = self.queue.pop_front().unwrap();
            self.last_actor = a;
            self.emitted += 1;
            return Some(e);
        }
        None
    }
}

impl crate::train::Source for Gen {
    fn next(&mut self, sim: &Sim) -> Option<Ev> {
        let e = self.next_event(sim);
        if e.is_some() {
            self.actor_log.push(self.last_actor);
        }
        e
    }
}
