//! Batch runner: seeded runs on all cores, violation triage (known findings, minimisation,
//! replay files verified in a fresh process), evidence, CLI.

use crate::event::*;
use crate::gen::{profile, Gen};
use crate::rng::{derive, Fnv};
use crate::sim::{Regime, Sim, SimCfg, Violation};
use serde_json::json;
use std::collections::{BTreeMap, HashSet};
use std::sync::atomic::{AtomicU64, Ordering};
use std::sync::{Arc, Mutex};
use std::time::Instant;

/// Root of the verification tree (evidence, replays, known findings, the f32 binary).
pub fn verif_root() -> String {
    std::env::var("CORGISIM_ROOT").unwrap_or_else(|_| "/verif".to_string())
}

pub fn build_name() -> &'static str {
    if cfg!(feature = "f32") {
        "f32"
    } else {
        "f64"
    }
}

pub struct RunOut {
    pub trace: Vec<Ev>,
    pub actors: Vec<&'static str>,
    pub sim: Sim,
    pub regime: Regime,
    pub digest: u64,
}

pub fn regime_name(r: Regime) -> &'static str {
    match r {
        Regime::Int => "int",
        Regime::Smooth => "smooth",
    }
}

pub static THOROUGH: std::sync::atomic::AtomicBool = std::sync::atomic::AtomicBool::new(false);

pub fn run_generated(pname: &str, seed: u64) -> RunOut {
    let mut gen = Gen::new(seed, profile(pname));
    gen.deep = THOROUGH.load(Ordering::Relaxed);
    if cfg!(feature = "f32") {
        gen.p.integer_only = true;
    }
    let regime = gen.regime;
    let mut sim = Sim::new(SimCfg { regime, monitors: true, guard_mag: false, silent: false });
    let mut trace = Vec::new();
    crate::train::drive(&mut sim, &mut gen, &mut trace);
    let actors = std::mem::take(&mut gen.actor_log);
    let digest = sim.finish_digest();
    RunOut { trace, actors, sim, regime, digest }
}

pub fn run_trace(events: &[Ev], regime: Regime, monitors: bool) -> Sim {
    let mut sim = Sim::new(SimCfg { regime, monitors, guard_mag: false, silent: false });
    let mut src = crate::train::ListSource { evs: events, i: 0 };
    let mut rec = Vec::new();
    crate::train::drive(&mut sim, &mut src, &mut rec);
    sim
}

// ---------------------------------------------------------------------------------------------
// known findings

#[derive(Clone, Debug, serde::Deserialize)]
pub struct Finding {
    pub id: String,
    pub status: String,
    pub property: String,
    #[serde(default)]
    pub monitor: String,
    #[serde(default)]
    pub class_contains: Vec<String>,
    pub what: String,
    #[serde(default)]
    pub commit: String,
}

#[derive(Clone, Debug, serde::Deserialize, Default)]
pub struct Findings {
    pub findings: Vec<Finding>,
}

pub fn load_findings() -> Findings {
    match std::fs::read_to_string(format!("{}/known_findings.json", verif_root())) {
        Ok(s) => serde_json::from_str(&s).unwrap_or_else(|e| {
            eprintln!("harness error: known_findings.json does not parse: {}", e);
            std::process::exit(2);
        }),
        Err(_) => Findings::default(),
    }
}

/// Does a violation of property `vp` count for the check of `prop`? The f32 check judges every monitor.
pub fn counts_for(vp: &str, prop: &str) -> bool {
    vp == prop || prop == "C19"
}

pub fn match_finding<'a>(f: &'a Findings, v: &Violation) -> Option<&'a Finding> {
    f.findings.iter().find(|k| {
        k.status == "known" && k.property == v.prop && (k.monitor.is_empty() || k.monitor == "*" || k.monitor == v.monitor) && k.class_contains.iter().all(|c| v.class.contains(c.as_str()))
    })
}

// ---------------------------------------------------------------------------------------------
// minimisation (ddmin over the event list; events are total, so every subsequence is a trace)

pub type Judge<'a> = dyn Fn(&[Ev]) -> Vec<Violation> + 'a;

fn still_fails(judge: &Judge, evs: &[Ev], prop: &str, monitor: &str, kf: &Findings, want_kf: Option<&str>) -> bool {
    judge(evs).iter().any(|v| counts_for(v.prop, prop) && v.monitor == monitor && match_finding(kf, v).map(|k| k.id.as_str()) == want_kf)
}

pub fn ddmin(judge: &Judge, events: &[Ev], prop: &str, monitor: &str, kf: &Findings, want_kf: Option<&str>, keep_indices: bool) -> Vec<Ev> {
    if keep_indices {
        return ddmin_nop(judge, events, prop, monitor, kf, want_kf);
    }
    let mut cur: Vec<Ev> = events.to_vec();
    let mut n = 2usize;
    let mut budget = 1500usize;
    while cur.len() >= 2 && budget > 0 {
        let chunk = (cur.len() + n - 1) / n;
        let mut reduced = false;
        let mut i = 0;
        while i < cur.len() && budget > 0 {
            let mut cand = cur.clone();
            let end = (i + chunk).min(cand.len());
            cand.drain(i..end);
            budget -= 1;
            if !cand.is_empty() && still_fails(judge, &cand, prop, monitor, kf, want_kf) {
                cur = cand;
                n = (n - 1).max(2);
                reduced = true;
            } else {
                i += chunk;
            }
        }
        if !reduced {
            if chunk <= 1 {
                break;
            }
            n = (n * 2).min(cur.len());
        }
    }
    // one-at-a-time removal until a fixpoint (1-minimality as far as the budget allows)
    let mut changed = true;
    while changed && budget > 0 {
        changed = false;
        let mut i = cur.len();
        while i > 0 && budget > 0 {
            i -= 1;
            if cur.len() < 2 {
                break;
            }
            let mut cand = cur.clone();
            cand.remove(i);
            budget -= 1;
            if still_fails(judge, &cand, prop, monitor, kf, want_kf) {
                cur = cand;
                changed = true;
            }
        }
    }
    // per-event simplification
    let mut i = 0;
    while i < cur.len() && budget > 0 {
        let simpler: Vec<Ev> = simplify(&cur[i]);
        for s in simpler {
            let mut cand = cur.clone();
            cand[i] = s;
            budget = budget.saturating_sub(1);
            if still_fails(judge, &cand, prop, monitor, kf, want_kf) {
                cur = cand;
                break;
            }
        }
        i += 1;
    }
    cur
}

/// Reduction that keeps event indices stable: removed events become `Nop`.
fn ddmin_nop(judge: &Judge, events: &[Ev], prop: &str, monitor: &str, kf: &Findings, want_kf: Option<&str>) -> Vec<Ev> {
    let mut cur: Vec<Ev> = events.to_vec();
    let mut budget = 600usize;
    let mut chunk = (cur.len() / 2).max(1);
    loop {
        let mut i = 0;
        while i < cur.len() && budget > 0 {
            let end = (i + chunk).min(cur.len());
            if cur[i..end].iter().all(|e| matches!(e, Ev::Nop)) {
                i = end;
                continue;
            }
            let mut cand = cur.clone();
            for e in cand[i..end].iter_mut() {
                *e = Ev::Nop;
            }
            budget -= 1;
            if still_fails(judge, &cand, prop, monitor, kf, want_kf) {
                cur = cand;
            }
            i = end;
        }
        if chunk == 1 || budget == 0 {
            break;
        }
        chunk = (chunk / 2).max(1);
    }
    // trailing Nops carry no information
    while matches!(cur.last(), Some(Ev::Nop)) {
        let mut cand = cur.clone();
        cand.pop();
        if still_fails(judge, &cand, prop, monitor, kf, want_kf) {
            cur = cand;
        } else {
            break;
        }
    }
    cur
}

fn simplify(e: &Ev) -> Vec<Ev> {
    let mut v = Vec::new();
    match e {
        Ev::Leaf { dst, dims, vals, mode } => {
            if vals.iter().any(|x| *x != 1.0) {
                v.push(Ev::Leaf { dst: *dst, dims: dims.clone(), vals: vec![1.0; vals.len()], mode: *mode });
            }
            if vals.iter().any(|x| x.abs() != 1.0) {
                v.push(Ev::Leaf { dst: *dst, dims: dims.clone(), vals: vals.iter().map(|x| if *x < 0.0 { -1.0 } else { 1.0 }).collect(), mode: *mode });
            }
        }
        Ev::Pass { root, seed, via_clone } => {
            if *seed != Seed::None {
                v.push(Ev::Pass { root: *root, seed: Seed::None, via_clone: *via_clone });
            }
            if *via_clone {
                v.push(Ev::Pass { root: *root, seed: seed.clone(), via_clone: false });
            }
        }
        Ev::Build { dst, op: Op::Custom { kind, coef, script }, args } => {
            if !script.is_empty() {
                v.push(Ev::Build { dst: *dst, op: Op::Custom { kind: kind.clone(), coef: coef.clone(), script: vec![] }, args: args.clone() });
            }
        }
        Ev::GradRead { slot, via_clone: true } => v.push(Ev::GradRead { slot: *slot, via_clone: false }),
        _ => {}
    }
    v
}

// ---------------------------------------------------------------------------------------------
// batch

#[derive(Default)]
pub struct Agg {
    pub runs: u64,
    pub ticks: u64,
    pub max_ticks: u64,
    pub executed: u64,
    pub skipped: u64,
    pub nontrivial: HashSet<u64>,
    pub abstracts: HashSet<u64>,
    pub states: HashSet<u64>,
    pub faults: BTreeMap<String, u64>,
    pub faults_runs: BTreeMap<String, u64>,
    pub probes: BTreeMap<String, u64>,
    pub counters: BTreeMap<String, u64>,
    pub max_err_over_tol: f64,
    pub digest_xor: u64,
    pub digest_sum: u64,
    pub regimes: BTreeMap<String, u64>,
    pub actor_turns: BTreeMap<String, u64>,
    pub other_prop_hits: BTreeMap<String, u64>,
    pub viols: Vec<(String, u64, u64, Violation)>, // (profile, run index, seed, violation)
    pub samples: Vec<(u64, serde_json::Value)>,
    pub nontrivial_sample: Option<(u64, serde_json::Value)>,
    pub forks: u64,
    pub configs: BTreeMap<String, u64>,
    pub harness_panics: u64,
    /// for the first violating runs of each worker: the traces that worker executed before (same thread)
    pub history: BTreeMap<(String, u64), Vec<(Vec<Ev>, Regime)>>,
}

pub fn abstract_hash(trace: &[Ev]) -> u64 {
    let mut h = Fnv::default();
    for e in trace {
        h.str(e.kind());
        match e {
            Ev::Leaf { dst, dims, mode, .. } => {
                h.u64(*dst as u64);
                h.usizes(dims);
                h.u64(*mode as u64);
            }
            Ev::Build { dst, op, args } => {
                h.u64(*dst as u64);
                h.str(op.name());
                h.usizes(args);
            }
            Ev::CondBuild { cond, dst, .. } => {
                h.u64(*cond as u64);
                h.u64(*dst as u64);
            }
            Ev::Pass { root, seed, via_clone } => {
                h.u64(*root as u64);
                h.u64(matches!(seed, Seed::None) as u64);
                h.u64(*via_clone as u64);
            }
            Ev::GradRead { slot, .. } | Ev::GradClear { slot, .. } | Ev::DropSlot { slot } | Ev::Rebind { slot } | Ev::Retire { slot } => h.u64(*slot as u64),
            Ev::Flag { slot, f } => {
                h.u64(*slot as u64);
                h.u64(*f as u64);
            }
            Ev::CloneTo { src, dst } | Ev::FlagClone { src, dst, .. } => {
                h.u64(*src as u64);
                h.u64(*dst as u64);
            }
            Ev::Swap { a, b } => {
                h.u64(*a as u64);
                h.u64(*b as u64);
            }
            Ev::Update { slots, .. } => h.usizes(slots),
            _ => {}
        }
    }
    h.0
}

pub fn ev_compact(e: &Ev) -> String {
    match e {
        Ev::Leaf { dst, dims, vals, mode } => format!("s{} = leaf {:?} {:?} {:?}", dst, dims, vals, mode),
        Ev::Build { dst, op, args } => format!("s{} = {}{} {:?}", dst, op.name(), match op {
            Op::Scale(k) | Op::Powf(k) | Op::Axpy(k) => format!("({})", k),
            Op::Sum(k) => format!("({})", k),
            Op::Reshape(d) => format!("({:?})", d),
            Op::Matmul { ta, tb } => format!("(ta={},tb={})", ta, tb),
            Op::Conv { sr, sc } => format!("(stride {},{})", sr, sc),
            Op::Custom { coef, script, .. } => format!("(coef {:?}, script {:?})", coef, script),
            _ => String::new(),
        }, args.iter().map(|a| format!("s{}", a)).collect::<Vec<_>>()),
        Ev::CondBuild { cond, thresh, dst, then, otherwise } => format!("s{} = if s{}[0] > {} {{ {} {:?} }} else {{ {} {:?} }}", dst, cond, thresh, then.0.name(), then.1, otherwise.0.name(), otherwise.1),
        Ev::Pass { root, seed, via_clone } => format!("backward(s{}{}, {:?})", root, if *via_clone { ".clone()" } else { "" }, seed),
        other => format!("{:?}", other),
    }
}

/// Per-property rule deciding whether a finished run was non-trivial.
pub fn nontrivial(prop: &str, out: &RunOut) -> bool {
    let s = &out.sim;
    let lifetime_or_flag_before = |ev: usize| -> bool { out.trace[..ev.min(out.trace.len())].iter().any(|e| matches!(e, Ev::DropSlot { .. } | Ev::CloneTo { .. } | Ev::Rebind { .. } | Ev::Flag { .. } | Ev::FlagClone { .. } | Ev::Swap { .. })) };
    match prop {
        "C01" => s.passes.iter().any(|p| p.max_fan_in >= 2 && (p.other_live_consumers || lifetime_or_flag_before(p.event))),
        "C03" => s.passes.iter().any(|p| p.bcast_first_later.0 || p.bcast_first_later.1),
        "C08" => s.c08_nontrivial > 0,
        "C09" => s.passes.iter().any(|p| (p.had_untracked_edge && p.had_tracked_edge) || s.c09_toggled_alias),
        "C10" => s.passes.iter().filter(|p| p.overlapped_earlier).count() >= 1 && s.passes.len() >= 2,
        "C11" => s.passes.iter().any(|p| p.custom_nodes >= 1 && p.max_fan_in >= 2),
        "C13" => s.c13_nontrivial > 0,
        "C18" => s.c18_nontrivial > 0,
        "C19" => (!s.passes.is_empty() && out.regime == Regime::Smooth) || s.cnt.updates > 0 || s.train.iterations > 0,
        "C14" => s.train.iterations >= 3 && s.train.layers >= 2 && (s.train.batch_changes > 0 || s.train.kept_outputs > 0),
        _ => !s.passes.is_empty(),
    }
}

pub fn state_hashes(out: &RunOut) -> Vec<u64> {
    out.sim
        .passes
        .iter()
        .map(|p| {
            let mut h = Fnv::default();
            h.u64(p.reach.len() as u64);
            h.u64(p.max_fan_in as u64);
            h.u64(p.custom_nodes as u64);
            h.u64(p.had_untracked_edge as u64);
            h.u64(p.had_tracked_edge as u64);
            h.u64(p.other_live_consumers as u64);
            h.u64(p.overlapped_earlier as u64);
            h.u64(p.root_is_leaf as u64);
            h.u64(p.bcast_first_later.0 as u64 * 2 + p.bcast_first_later.1 as u64);
            let mut ops: Vec<&'static str> = p.reach.iter().filter_map(|n| out.sim.g.nodes[*n].op.as_ref().map(|o| o.name())).collect();
            ops.sort();
            for o in ops {
                h.str(o);
            }
            h.0
        })
        .collect()
}

pub struct Plan {
    pub prop: String,
    pub tier: String,
    pub seed: u64,
    /// (profile name, number of runs)
    pub mix: Vec<(String, u64)>,
}

pub fn plan_for(prop: &str, tier: &str, seed: u64) -> Plan {
    // runs per tier; the relational checks fork ~10 replays per run and get a smaller base
    let heavy = matches!(prop, "C10" | "C12" | "C17");
    let base: u64 = match (tier == "thorough", heavy) {
        (false, false) => 200_000,
        (false, true) => 60_000,
        (true, false) => 4_000_000,
        (true, true) => 1_000_000,
    };
    let scale = std::env::var("VERIF_RUNS_SCALE").ok().and_then(|s| s.parse::<f64>().ok()).unwrap_or(1.0);
    let base = ((base as f64) * scale) as u64;
    if prop == "C19" {
        let names = ["C01", "C03", "C09", "C10", "C11", "C12", "C13", "C14", "C17", "C18"];
        let per = base / 2 / names.len() as u64;
        return Plan { prop: prop.to_string(), tier: tier.to_string(), seed, mix: names.iter().map(|n| (n.to_string(), if matches!(*n, "C10" | "C12" | "C17") { per / 3 } else { per })).collect() };
    }
    let own = prop.to_string();
    let mut mix = vec![(own.clone(), base * 6 / 10)];
    let others: Vec<&str> = match prop {
        "C01" => vec!["C03", "C10", "C11", "C09"],
        "C03" => vec!["C01", "C13"],
        "C08" => vec!["C10", "C13", "C18", "C11", "C14"],
        "C09" => vec!["C01", "C10", "C18"],
        "C10" => vec!["C01", "C11", "C09", "C14"],
        "C11" => vec!["C01", "C10"],
        "C13" => vec!["C03", "C08", "C14"],
        "C18" => vec!["C08", "C10", "C09", "C14"],
        "C12" => vec!["C01", "C10", "C18"],
        "C14" => vec![],
        _ => vec!["C01"],
    };
    if others.is_empty() {
        mix[0].1 = base;
    }
    for o in &others {
        mix.push((o.to_string(), base * 4 / 10 / others.len() as u64));
    }
    Plan { prop: prop.to_string(), tier: tier.to_string(), seed, mix }
}

fn absorb(agg: &mut Agg, prop: &str, pname: &str, idx: u64, seed: u64, out: &RunOut, rel: RelOut) {
    let extra = rel.viols;
    let forks = rel.forks;
    let s = &out.sim;
    agg.runs += 1;
    agg.forks += forks;
    let ticks = out.trace.len() as u64;
    agg.ticks += ticks;
    agg.max_ticks = agg.max_ticks.max(ticks);
    agg.executed += s.cnt.executed;
    agg.skipped += s.cnt.skipped;
    let ah = abstract_hash(&out.trace);
    agg.abstracts.insert(ah);
    let nt = rel.nontrivial.unwrap_or_else(|| nontrivial(prop, out));
    if nt {
        agg.nontrivial.insert(ah);
    }
    for h in state_hashes(out) {
        agg.states.insert(h);
    }
    for (k, v) in &s.faults {
        *agg.faults.entry(k.to_string()).or_insert(0) += v;
        *agg.faults_runs.entry(k.to_string()).or_insert(0) += 1;
    }
    *agg.regimes.entry(regime_name(out.regime).to_string()).or_insert(0) += 1;
    for a in &out.actors {
        *agg.actor_turns.entry(a.to_string()).or_insert(0) += 1;
    }
    let c = &s.cnt;
    for (k, v) in [
        ("unexpected_refusal", c.unexpected_refusal),
        ("forward_nonconformance", c.forward_nonconformance),
        ("domain_guard", c.domain_guard),
        ("magnitude_guard", c.magnitude_guard),
        ("refused_as_expected", c.refused_as_expected),
        ("refused_not", c.refused_not),
        ("retire_ok", c.retire_ok),
        ("retire_control_panics", c.retire_control_panics),
        ("retire_control_ok", c.retire_control_ok),
        ("exact_compares", c.exact_compares),
        ("tolerance_compares", c.tol_compares),
        ("flags_read", c.flags_read),
        ("alias_checks", c.alias_checks),
        ("updates", c.updates),
        ("updates_frozen_middle", c.updates_frozen_middle),
        ("reference_adjoint_selfchecks", c.reference_selfchecks),
        ("train_iterations", s.train.iterations),
        ("train_iterations_judged_against_reference", s.train.judged_abs),
        ("train_iterations_judged_against_restart", s.train.judged_restart),
        ("train_relu_kink_guard", s.train.kink_guard),
        ("train_batch_shape_changes", s.train.batch_changes),
        ("train_kept_outputs", s.train.kept_outputs),
        ("train_model_sessions", s.train.sessions),
    ] {
        *agg.counters.entry(k.to_string()).or_insert(0) += v;
    }
    if c.max_err_over_tol > agg.max_err_over_tol {
        agg.max_err_over_tol = c.max_err_over_tol;
    }
    {
        let r = s.sh.reent.borrow();
        for (k, v) in [("reentrant_forward_ops", r.fwd_on_children), ("reentrant_gradient_reads", r.read_grad), ("reentrant_clone_drop", r.clone_drop), ("nested_pass_inside_closure", r.nested_pass), ("reentrant_debug_format", r.debug_format)] {
            *agg.probes.entry(k.to_string()).or_insert(0) += v;
            if v > 0 {
                *agg.faults.entry("F11_reentrancy".to_string()).or_insert(0) += v;
            }
        }
    }
    for c in &s.train.configs {
        *agg.configs.entry(c.clone()).or_insert(0) += 1;
    }
    for p in &s.passes {
        *agg.probes.entry("passes".into()).or_insert(0) += 1;
        if p.max_fan_in >= 2 {
            *agg.probes.entry("pass_with_shared_node".into()).or_insert(0) += 1;
        }
        if p.other_live_consumers {
            *agg.probes.entry("pass_while_other_graph_over_same_nodes_alive".into()).or_insert(0) += 1;
        }
        if p.overlapped_earlier {
            *agg.probes.entry("pass_overlapping_earlier_pass".into()).or_insert(0) += 1;
        }
        if p.bcast_first_later.0 {
            *agg.probes.entry("broadcast_operand_multi_use_broadcast_first".into()).or_insert(0) += 1;
        }
        if p.bcast_first_later.1 {
            *agg.probes.entry("broadcast_operand_multi_use_broadcast_later".into()).or_insert(0) += 1;
        }
        if p.had_untracked_edge && p.had_tracked_edge {
            *agg.probes.entry("pass_with_mixed_tracked_untracked_edges".into()).or_insert(0) += 1;
        }
        if p.root_is_leaf {
            *agg.probes.entry("pass_on_leaf".into()).or_insert(0) += 1;
        }
        if p.custom_nodes > 0 {
            *agg.probes.entry("pass_with_user_closures".into()).or_insert(0) += 1;
        }
        let e = agg.probes.entry("max_fan_in".into()).or_insert(0);
        *e = (*e).max(p.max_fan_in as u64);
        let e = agg.probes.entry("max_reachable_nodes".into()).or_insert(0);
        *e = (*e).max(p.reach.len() as u64);
        *agg.probes.entry("user_closure_invocations".into()).or_insert(0) += p.invocations as u64;
        *agg.probes.entry("engine_node_visits_hook".into()).or_insert(0) += p.engine_steps;
        if p.engine_size > 0 {
            let e = agg.probes.entry("max_engine_visits_per_100_nodes_and_edges".into()).or_insert(0);
            *e = (*e).max(p.engine_steps * 100 / p.engine_size);
        }
    }
    agg.digest_xor ^= out.digest.rotate_left((idx % 63) as u32);
    agg.digest_sum = agg.digest_sum.wrapping_add(out.digest.wrapping_mul(idx | 1));
    for v in s.violations.iter().chain(extra.iter()) {
        if counts_for(v.prop, prop) {
            agg.viols.push((pname.to_string(), idx, seed, v.clone()));
        } else {
            *agg.other_prop_hits.entry(format!("{}:{}", v.prop, v.monitor)).or_insert(0) += 1;
        }
    }
    if idx < 1 && (pname == prop || prop == "C19") || idx < 3 && pname == prop {
        let sample = json!({"profile": pname, "run": idx, "seed": seed, "regime": regime_name(out.regime), "nontrivial": nt, "relational_case": rel.sample,
            "events": out.trace.iter().zip(&out.actors).map(|(e, a)| format!("[{}] {}", a, ev_compact(e))).collect::<Vec<_>>() });
        agg.samples.push((idx, sample));
    }
    if nt && (pname == prop || prop == "C19") {
        let better = match &agg.nontrivial_sample {
            None => true,
            Some((i, _)) => idx < *i,
        };
        if better && out.trace.len() <= 40 {
            let sample = json!({"profile": pname, "run": idx, "seed": seed, "regime": regime_name(out.regime), "nontrivial": true, "relational_case": rel.sample,
                "events": out.trace.iter().zip(&out.actors).map(|(e, a)| format!("[{}] {}", a, ev_compact(e))).collect::<Vec<_>>() });
            agg.nontrivial_sample = Some((idx, sample));
        }
    }
}

fn merge(a: &mut Agg, b: Agg) {
    a.runs += b.runs;
    a.forks += b.forks;
    a.ticks += b.ticks;
    a.max_ticks = a.max_ticks.max(b.max_ticks);
    a.executed += b.executed;
    a.skipped += b.skipped;
    a.nontrivial.extend(b.nontrivial);
    a.abstracts.extend(b.abstracts);
    a.states.extend(b.states);
    for (k, v) in b.faults {
        *a.faults.entry(k).or_insert(0) += v;
    }
    for (k, v) in b.faults_runs {
        *a.faults_runs.entry(k).or_insert(0) += v;
    }
    for (k, v) in b.probes {
        if k.starts_with("max_") {
            let e = a.probes.entry(k).or_insert(0);
            *e = (*e).max(v);
        } else {
            *a.probes.entry(k).or_insert(0) += v;
        }
    }
    for (k, v) in b.counters {
        *a.counters.entry(k).or_insert(0) += v;
    }
    a.max_err_over_tol = a.max_err_over_tol.max(b.max_err_over_tol);
    a.digest_xor ^= b.digest_xor;
    a.digest_sum = a.digest_sum.wrapping_add(b.digest_sum);
    for (k, v) in b.regimes {
        *a.regimes.entry(k).or_insert(0) += v;
    }
    for (k, v) in b.actor_turns {
        *a.actor_turns.entry(k).or_insert(0) += v;
    }
    for (k, v) in b.other_prop_hits {
        *a.other_prop_hits.entry(k).or_insert(0) += v;
    }
    for (k, v) in b.configs {
        *a.configs.entry(k).or_insert(0) += v;
    }
    a.harness_panics += b.harness_panics;
    a.history.extend(b.history);
    a.viols.extend(b.viols);
    a.samples.extend(b.samples);
    match (&a.nontrivial_sample, b.nontrivial_sample) {
        (None, x) => a.nontrivial_sample = x,
        (Some((i, _)), Some((j, s))) if j < *i => a.nontrivial_sample = Some((j, s)),
        _ => {}
    }
}

/// Shifts the event indices inside a relational violation's payload (C12 perturbations, C17 case)
/// when the trace gets a prefix of `off` events.
pub fn offset_extra(extra: &serde_json::Value, off: usize) -> serde_json::Value {
    let mut e = extra.clone();
    if let Some(c) = e.get_mut("case") {
        if let Some(ev) = c.get("event").and_then(|x| x.as_u64()) {
            c["event"] = json!(ev + off as u64);
        }
    }
    if let Some(ps) = e.get_mut("perturb").and_then(|p| p.as_array_mut()) {
        for p in ps.iter_mut() {
            if let Some(obj) = p.as_object_mut() {
                for (_, inner) in obj.iter_mut() {
                    if let Some(j) = inner.get("j").and_then(|x| x.as_u64()) {
                        inner["j"] = json!(j + off as u64);
                    }
                }
            }
        }
    }
    e
}

pub fn in_fresh_thread<T: Send, F: FnOnce() -> T + Send>(f: F) -> T {
    std::thread::scope(|sc| std::thread::Builder::new().stack_size(1 << 30).spawn_scoped(sc, f).unwrap().join().unwrap())
}

pub fn workers() -> usize {
    std::env::var("VERIF_WORKERS").ok().and_then(|s| s.parse().ok()).unwrap_or_else(|| std::thread::available_parallelism().map(|n| n.get()).unwrap_or(4))
}

pub struct RelOut {
    pub viols: Vec<Violation>,
    pub forks: u64,
    pub nontrivial: Option<bool>,
    pub sample: serde_json::Value,
}

/// Extra (relational) oracles evaluated on a finished run.
pub fn relational(prop: &str, pname: &str, tier: &str, idx: u64, out: &RunOut, seed: u64) -> RelOut {
    let prop = if prop == "C19" { pname } else { prop };
    match prop {
        "C01" => {
            let (viols, forks) = if idx % 2 == 0 { crate::relational::unobserved(out) } else { (vec![], 0) };
            RelOut { viols, forks, nontrivial: None, sample: serde_json::Value::Null }
        }
        "C10" => {
            let (mut viols, mut forks, _) = crate::relational::c10_solo(out);
            if viols.is_empty() {
                let (v3, f3) = crate::relational::unobserved(out);
                viols.extend(v3);
                forks += f3;
            }
            if viols.is_empty() && idx % 4 == 0 {
                let (v2, f2) = crate::relational::c10_sweep(out, seed, tier == "thorough" && idx % 16 == 0);
                viols.extend(v2);
                forks += f2;
            }
            RelOut { viols, forks, nontrivial: None, sample: serde_json::Value::Null }
        }
        "C18" => {
            if idx % 4 != 0 {
                return RelOut { viols: vec![], forks: 0, nontrivial: None, sample: serde_json::Value::Null };
            }
            let (viols, forks, _) = crate::relational::c18_orders(out, seed, tier == "thorough" && idx % 16 == 0);
            RelOut { viols, forks, nontrivial: None, sample: serde_json::Value::Null }
        }
        "C12" => {
            let exhaustive = tier == "thorough" && idx % 8 == 0;
            let (mut viols, mut forks, nt, sample) = crate::relational::c12(out, seed, exhaustive);
            if viols.is_empty() {
                let (v3, f3) = crate::relational::unobserved(out);
                viols.extend(v3);
                forks += f3;
            }
            for v in viols.iter_mut() {
                // the perturbation set is part of the violating case
                let ps = v.detail.clone();
                let _ = ps;
            }
            RelOut { viols, forks, nontrivial: Some(nt), sample: serde_json::to_value(&sample).unwrap() }
        }
        "C17" => {
            let (viols, forks, nt, case) = crate::relational::c17(out, seed);
            RelOut { viols, forks, nontrivial: Some(nt), sample: serde_json::to_value(&case).unwrap() }
        }
        _ => RelOut { viols: vec![], forks: 0, nontrivial: None, sample: serde_json::Value::Null },
    }
}

pub fn run_batch(plan: &Plan, wall_cap_s: f64) -> (Agg, bool) {
    let start = Instant::now();
    let nw = workers();
    let total = Arc::new(Mutex::new(Agg::default()));
    let mut capped = false;
    for (pname, nruns) in &plan.mix {
        let counter = Arc::new(AtomicU64::new(0));
        let mut handles = Vec::new();
        for wid in 0..nw {
            let counter = counter.clone();
            let total = total.clone();
            let pname = pname.clone();
            let prop = plan.prop.clone();
            let tier = plan.tier.clone();
            let nruns = *nruns;
            let base = plan.seed;
            let label = format!("{}/{}", plan.prop, pname);
            let h = std::thread::Builder::new()
                .stack_size(1 << 30)
                .spawn(move || {
                    let _ = &counter;
                    let mut agg = Agg::default();
                    // static striding: worker w executes runs w, w+nw, ... so that the sequence of runs a
                    // thread sees is a function of (seed, worker count) only
                    let mut recent: std::collections::VecDeque<(Vec<Ev>, Regime)> = std::collections::VecDeque::new();
                    let mut i = wid as u64;
                    while i < nruns {
                        if start.elapsed().as_secs_f64() > wall_cap_s {
                            break;
                        }
                        let seed = derive(base, &label, i);
                        // a panic of the simulator itself must not take the batch down: it is counted and
                        // turns the verdict into a harness error (exit 2)
                        let attempt = std::panic::catch_unwind(std::panic::AssertUnwindSafe(|| {
                            let out = run_generated(&pname, seed);
                            let rel = relational(&prop, &pname, &tier, i, &out, seed);
                            (out, rel)
                        }));
                        let (out, rel) = match attempt {
                            Ok(x) => x,
                            Err(_) => {
                                agg.harness_panics += 1;
                                eprintln!("[harness] run {}/{} (seed {}) panicked inside the simulator: {}", pname, i, seed, crate::last_panic());
                                i += nw as u64;
                                continue;
                            }
                        };
                        let nv = agg.viols.len();
                        let (tr, rg) = (out.trace.clone(), out.regime);
                        absorb(&mut agg, &prop, &pname, i, seed, &out, rel);
                        if agg.viols.len() > nv && agg.history.len() < 8 {
                            agg.history.insert((pname.clone(), i), recent.iter().cloned().collect());
                        }
                        recent.push_back((tr, rg));
                        if recent.len() > 300 {
                            recent.pop_front();
                        }
                        i += nw as u64;
                    }
                    let mut t = total.lock().unwrap();
                    merge(&mut t, agg);
                })
                .unwrap();
            handles.push(h);
        }
        for h in handles {
            h.join().unwrap();
        }
        if start.elapsed().as_secs_f64() > wall_cap_s {
            capped = true;
        }
    }
    let agg = Arc::try_unwrap(total).ok().unwrap().into_inner().unwrap();
    (agg, capped)
}

fn corgi_rev() -> String {
    let out = std::process::Command::new("git").args(["-C", "/repo", "rev-parse", "--short", "HEAD"]).output();
    let rev = out.ok().map(|o| String::from_utf8_lossy(&o.stdout).trim().to_string()).unwrap_or_default();
    let dirty = std::process::Command::new("git").args(["-C", "/repo", "status", "--porcelain", "--", "src"]).output().ok().map(|o| !o.stdout.is_empty()).unwrap_or(false);
    format!("{}{}", rev, if dirty { "+dirty" } else { "" })
}

/// The judge that re-decides a violation of the given monitor on a (possibly reduced) trace.
/// Returns the judge and whether reduction must keep event indices stable (Nop substitution).
pub fn judge_for(monitor: &str, regime: Regime, extra: &serde_json::Value) -> (Box<dyn Fn(&[Ev]) -> Vec<Violation>>, bool) {
    match monitor {
        "solo_deposit" | "solo_pass_panicked" => (Box::new(move |evs: &[Ev]| crate::relational::c10_judge(evs, regime)), false),
        "unobserved_history_differs" | "unobserved_history_panicked" => (Box::new(move |evs: &[Ev]| crate::relational::unobserved_judge(evs, regime)), false),
        "observation_differs" | "perturbed_run_panicked" => {
            let ps: Vec<crate::relational::Perturb> = serde_json::from_value(extra["perturb"].clone()).unwrap_or_default();
            (Box::new(move |evs: &[Ev]| crate::relational::c12_judge(evs, regime, &ps)), true)
        }
        "omitted_seed_is_ones" | "seed_linearity" | "seed_linearity_presence" | "seed_homogeneity" => {
            let case: Option<crate::relational::C17Case> = serde_json::from_value(extra["case"].clone()).ok();
            (
                Box::new(move |evs: &[Ev]| match &case {
                    Some(c) => crate::relational::c17_judge(evs, regime, c),
                    None => run_trace(evs, regime, true).violations,
                }),
                true,
            )
        }
        _ => (Box::new(move |evs: &[Ev]| run_trace(evs, regime, true).violations), false),
    }
}

fn write_replay(prop: &str, pname: &str, idx: u64, seed: u64, base: u64, regime: Regime, events: &[Ev], v: &Violation, tag: &str) -> String {
    let r = Replay {
        format: 1,
        property: prop.to_string(),
        monitor: v.monitor.to_string(),
        class: v.class.clone(),
        base_seed: base,
        profile: pname.to_string(),
        run_index: idx,
        build: build_name().to_string(),
        regime: regime_name(regime).to_string(),
        events: events.to_vec(),
        failing_event: v.event,
        detail: v.detail.clone(),
        corgi_rev: corgi_rev(),
        extra: json!({"run_seed": seed, "perturb": v.extra.get("perturb").cloned().unwrap_or(serde_json::Value::Null), "case": v.extra.get("case").cloned().unwrap_or(serde_json::Value::Null)}),
    };
    let dir = format!("{}/replays", verif_root());
    let _ = std::fs::create_dir_all(&dir);
    let path = format!("{}/{}-{}-{}-{}-{}{}{}.json", dir, prop, v.monitor, base, pname, idx, tag, if cfg!(feature = "f32") { "-f32" } else { "" });
    std::fs::write(&path, serde_json::to_string_pretty(&r).unwrap()).expect("cannot write replay file");
    path
}

pub fn replay_file(path: &str) -> i32 {
    let s = match std::fs::read_to_string(path) {
        Ok(s) => s,
        Err(e) => {
            eprintln!("harness error: cannot read {}: {}", path, e);
            return 2;
        }
    };
    let r: Replay = match serde_json::from_str(&s) {
        Ok(r) => r,
        Err(e) => {
            eprintln!("harness error: {} does not parse: {}", path, e);
            return 2;
        }
    };
    if r.build != build_name() {
        eprintln!("harness error: replay was recorded on the {} build, this is the {} build", r.build, build_name());
        return 2;
    }
    if r.monitor == "cross_build_int" || r.monitor == "cross_build_structure" {
        for (i, e) in r.events.iter().enumerate() {
            println!("  t{:<3} {}", i, ev_compact(e));
        }
        return match crate::c19::cross_replay_mode(&r.events, r.monitor == "cross_build_structure") {
            Ok(Some(d)) => {
                println!("{}", d);
                println!("VIOLATION property=C19 replay={}", path);
                1
            }
            Ok(None) => {
                println!("replay of {}: both builds agree", path);
                0
            }
            Err(e) => {
                eprintln!("harness error: {}", e);
                2
            }
        };
    }
    let regime = if r.regime == "smooth" { Regime::Smooth } else { Regime::Int };
    let viols = crate::runner::judge_replay(&r, regime);
    let kf = load_findings();
    let mut hit = false;
    for v in &viols {
        if counts_for(v.prop, &r.property) && v.monitor == r.monitor {
            println!("event {} ({}): [{}] {}", v.event, r.events.get(v.event).map(ev_compact).unwrap_or_default(), v.class, v.detail);
            if let Some(k) = match_finding(&kf, v) {
                println!("KNOWN-FINDING: property={} {} ({})", v.prop, k.what, k.id);
            } else {
                hit = true;
            }
        }
    }
    for (i, e) in r.events.iter().enumerate() {
        println!("  t{:<3} {}", i, ev_compact(e));
    }
    if hit {
        println!("VIOLATION property={} replay={}", r.property, path);
        1
    } else {
        println!("replay of {} did not produce an unlisted violation of {} ({})", path, r.property, r.monitor);
        0
    }
}

pub fn judge_replay(r: &Replay, regime: Regime) -> Vec<Violation> {
    let (judge, _) = judge_for(&r.monitor, regime, &r.extra);
    judge(&r.events)
}

pub fn check(prop: &str, tier: &str) -> i32 {
    if prop == "C19" && !cfg!(feature = "f32") {
        return check_c19_parent(tier);
    }
    let seed: u64 = std::env::var("VERIF_SEED").ok().and_then(|s| s.parse().ok()).unwrap_or(1);
    let start = Instant::now();
    THOROUGH.store(tier == "thorough", Ordering::Relaxed);
    let plan = plan_for(prop, tier, seed);
    let cap = if tier == "thorough" { 1500.0 } else { 240.0 };
    println!("corgisim check {} tier={} seed={} build={} workers={} mix={:?}", prop, tier, seed, build_name(), workers(), plan.mix);
    let (mut agg, capped) = run_batch(&plan, cap);
    let mut exhaustive_dags: u64 = 0;
    if prop == "C11" {
        exhaustive_dags = enumerate_small_dags(&mut agg, if tier == "thorough" { 4 } else { 3 });
    }
    let kf = load_findings();
    if agg.harness_panics > 0 {
        eprintln!("harness error: {} runs panicked inside the simulator itself: {}", agg.harness_panics, crate::last_panic());
        return 2;
    }

    // triage
    agg.viols.sort_by(|a, b| (a.0.as_str(), a.1).cmp(&(b.0.as_str(), b.1)));
    let mut known_hits: BTreeMap<String, (String, u64)> = BTreeMap::new();
    let mut groups: BTreeMap<(String, String), (String, u64, u64, Violation, u64)> = BTreeMap::new();
    for (pname, idx, rseed, v) in &agg.viols {
        if let Some(k) = match_finding(&kf, v) {
            let e = known_hits.entry(k.id.clone()).or_insert((k.what.clone(), 0));
            e.1 += 1;
        } else {
            let key = (v.monitor.to_string(), v.class.clone());
            let e = groups.entry(key).or_insert((pname.clone(), *idx, *rseed, v.clone(), 0));
            e.4 += 1;
        }
    }
    for (id, (what, n)) in &known_hits {
        println!("KNOWN-FINDING: property={} {} [{} x{}]", prop, what, id, n);
    }
    let mut exit = 0;
    // instances per monitor, smallest run index first
    let mut per_monitor: BTreeMap<String, Vec<(String, u64, u64, Violation)>> = BTreeMap::new();
    for (pname, idx, rseed, v) in &agg.viols {
        if match_finding(&kf, v).is_none() {
            per_monitor.entry(v.monitor.to_string()).or_default().push((pname.clone(), *idx, *rseed, v.clone()));
        }
    }
    for ((monitor, class), (_, _, _, _, count)) in &groups {
        println!("  (also: {} x{} [{}])", monitor, count, class);
    }
    let mut irreproducible: Vec<String> = Vec::new();
    for (monitor, instances) in per_monitor.iter().take(4) {
        let mut done = false;
        for (pname, idx, rseed, v) in instances.iter().take(6) {
            match triage_one(prop, seed, pname, *idx, *rseed, v, &kf, agg.history.get(&(pname.clone(), *idx))) {
                Some((path, shown)) => {
                    println!("violation [{} x{}] {}: {}", monitor, instances.len(), shown.class, shown.detail);
                    println!("VIOLATION property={} replay={}", prop, path);
                    exit = 1;
                    done = true;
                    break;
                }
                None => continue,
            }
        }
        if !done {
            irreproducible.push(format!("{} (x{}, first at {}/{})", monitor, instances.len(), instances[0].0, instances[0].1));
        }
    }
    if exit == 0 && !irreproducible.is_empty() {
        eprintln!("harness error: violations were observed in the batch but none could be reproduced in a fresh thread (alone or after the runs that preceded it on the same worker thread): {:?}", irreproducible);
        return 2;
    }

    // evidence
    let wall = start.elapsed().as_secs_f64();
    let mut samples: Vec<serde_json::Value> = Vec::new();
    agg.samples.sort_by_key(|s| s.0);
    for (_, s) in agg.samples.iter().take(3) {
        samples.push(s.clone());
    }
    if let Some((_, s)) = &agg.nontrivial_sample {
        samples.push(s.clone());
    }
    let level = if prop == "C12" || prop == "C18" { "fault_enumeration" } else { "exploration" };
    let zero_probes: Vec<&String> = agg.probes.iter().filter(|(_, v)| **v == 0).map(|(k, _)| k).collect();
    let ev = json!({
        "property_id": prop,
        "tier": tier,
        "seed": seed,
        "level": level,
        "wall_s": wall,
        "violations": if exit == 0 { 0 } else { groups.len() },
        "coverage": {
            "evaluations": agg.runs,
            "forks": agg.forks,
            "distinct_nontrivial": agg.nontrivial.len(),
            "distinct_abstract_traces": agg.abstracts.len(),
            "rule": rule_text(prop),
            "samples": samples,
            "runs_per_hour": if wall > 0.0 { (agg.runs as f64 / wall * 3600.0) as u64 } else { 0 },
            "simulated_ticks_total": agg.ticks,
            "simulated_ticks_max_per_run": agg.max_ticks,
            "events_executed": agg.executed,
            "events_skipped_precondition": agg.skipped,
            "profile_mix": plan.mix,
            "regimes": agg.regimes,
            "actor_turns": agg.actor_turns,
            "faults_fired": agg.faults,
            "faults_fired_in_runs": agg.faults_runs,
            "reach_probes": agg.probes,
            "reach_probes_at_zero": zero_probes,
            "engine_states": agg.states.len(),
            "engine_states_measure": "distinct (reachable-node count, max fan-in, user-closure count, edge-flag mix, other live consumers, overlap with earlier passes, root kind, broadcast arrival pattern, multiset of operation kinds) tuples at pass start",
            "exhaustive_small_dag_schedules": exhaustive_dags,
            "counters": agg.counters,
            "layer_configurations_exercised": agg.configs,
            "max_error_over_tolerance": agg.max_err_over_tol,
            "known_findings_hit": known_hits.iter().map(|(k, v)| (k.clone(), v.1)).collect::<BTreeMap<_, _>>(),
            "monitors_of_other_properties_hit": agg.other_prop_hits,
            "wall_cap_hit": capped,
            "batch_digest": format!("{:016x}{:016x}", agg.digest_xor, agg.digest_sum),
            "components": {
                "real": "corgi default feature set, built from /repo's working tree: array engine, all kernels, optimizer (layers/model in C14)",
                "seam_supplied": "custom ForwardOp/BackwardOp closures given to Array::op; parameter values (no call to initializer::he)",
                "not_run": "blas/openblas/netlib feature set (needs a system BLAS), mimalloc feature",
                "build": build_name(),
                "corgi_rev": corgi_rev(),
            },
        },
        "assumptions": assumptions(prop),
    });
    let native_f32 = prop == "C19" && cfg!(feature = "f32");
    let dir = if native_f32 { format!("{}/work", verif_root()) } else { format!("{}/evidence", verif_root()) };
    let _ = std::fs::create_dir_all(&dir);
    let path = if native_f32 { format!("{}/C19.native-f32.json", dir) } else { format!("{}/{}.json", dir, prop) };
    if let Err(e) = std::fs::write(&path, serde_json::to_string_pretty(&ev).unwrap()) {
        eprintln!("harness error: cannot write evidence {}: {}", path, e);
        return 2;
    }
    println!(
        "{} {}: {} runs ({} forks), {} distinct non-trivial, {} engine states, {:.1}s, {} known-finding hits, exit {}",
        prop,
        tier,
        agg.runs,
        agg.forks,
        agg.nontrivial.len(),
        agg.states.len(),
        wall,
        known_hits.values().map(|v| v.1).sum::<u64>(),
        exit
    );
    exit
}

/// Reproduces one violating run in fresh threads (alone, then after the runs that preceded it on
/// the same worker thread, separated by NewWorld markers), minimises it and writes the replay
/// file, which must fail again in a fresh process. None when it cannot be reproduced.
#[allow(clippy::too_many_arguments)]
fn triage_one(prop: &str, seed: u64, pname: &str, idx: u64, rseed: u64, v: &Violation, kf: &Findings, history: Option<&Vec<(Vec<Ev>, Regime)>>) -> Option<(String, Violation)> {
    let monitor = v.monitor.to_string();
    let (mut t0, regime) = {
        let pn = pname.to_string();
        in_fresh_thread(move || {
            let o = run_generated(&pn, rseed);
            (o.trace, o.regime)
        })
    };
    // systematic sweeps judge a transformation of the generated trace and carry it along
    if let Some(alt) = v.extra.get("trace") {
        if let Ok(evs) = serde_json::from_value::<Vec<Ev>>(alt.clone()) {
            t0 = evs;
        }
    }
    let mon = monitor.clone();
    let judge_with = move |evs: &[Ev], extra: &serde_json::Value| -> Vec<Violation> {
        let evs = evs.to_vec();
        let mon = mon.clone();
        let extra = extra.clone();
        in_fresh_thread(move || (judge_for(&mon, regime, &extra).0)(&evs))
    };
    let keep_indices = judge_for(&monitor, regime, &v.extra).1;
    let mut candidates: Vec<(Vec<Ev>, serde_json::Value)> = vec![(t0.clone(), v.extra.clone())];
    if let Some(h) = history {
        for take in [1usize, 3, 20, h.len()] {
            if take == 0 || take > h.len() {
                continue;
            }
            let mut c: Vec<Ev> = Vec::new();
            for (t, r) in &h[h.len() - take..] {
                c.push(Ev::NewWorld { smooth: *r == Regime::Smooth });
                c.extend(t.iter().cloned());
            }
            c.push(Ev::NewWorld { smooth: regime == Regime::Smooth });
            c.extend(t0.iter().cloned());
            let off = c.len() - t0.len();
            candidates.push((c, offset_extra(&v.extra, off)));
        }
    }
    let hit = |vs: &[Violation]| vs.iter().any(|x| counts_for(x.prop, prop) && x.monitor == monitor && match_finding(kf, x).is_none());
    let (base_trace, extra_sel) = candidates.into_iter().find(|c| hit(&judge_with(&c.0, &c.1)))?;
    let mut v = v.clone();
    v.extra = extra_sel.clone();
    let judge_iso = move |evs: &[Ev]| -> Vec<Violation> { judge_with(evs, &extra_sel) };
    let full_path = write_replay(prop, pname, idx, rseed, seed, regime, &base_trace, &v, "-full");
    let min = ddmin(&judge_iso, &base_trace, prop, &monitor, kf, None, keep_indices);
    let mv = judge_iso(&min).into_iter().find(|x| counts_for(x.prop, prop) && x.monitor == monitor && match_finding(kf, x).is_none());
    let exe = std::env::current_exe().unwrap();
    let reproduces = |path: &str| -> bool {
        let st = std::process::Command::new(&exe).args(["replay", path]).stdout(std::process::Stdio::null()).status();
        matches!(st, Ok(s) if s.code() == Some(1))
    };
    if let Some(mut mv) = mv {
        if mv.extra.is_null() {
            mv.extra = v.extra.clone();
        }
        let path = write_replay(prop, pname, idx, rseed, seed, regime, &min, &mv, "");
        if reproduces(&path) {
            return Some((path, mv));
        }
    }
    if reproduces(&full_path) {
        return Some((full_path, v));
    }
    None
}

fn rule_text(prop: &str) -> String {
    let common = "Cases are seeded multi-actor histories (builder/differ/graduser/lifetime/flagger/optimizer/retirer/refuser turns, one library call per turn) over a shared pool of corgi handles; distinct = distinct hash of the abstract trace (event kinds, slots, operation kinds, shapes; literal values excluded). Non-trivial: ";
    let r = match prop {
        "C01" => "a differentiated graph has a node with >= 2 tracked in-graph consumers AND (another live consumer graph over its nodes existed at pass time OR a lifetime/flag event happened before the pass).",
        "C03" => "a broadcast operand received >= 2 contributions in one pass (broadcast contribution first, or later - both counted as probes).",
        "C08" => "the event was a pass or update and at least one watched alias shared storage with an array the event touched, or a held observation (fetched gradient, seed, stale parameter handle) was alive.",
        "C09" => "the differentiated graph contains both a tracked and an untracked edge, or a flag was toggled on a clone before a pass.",
        "C10" => ">= 2 passes whose differentiated graphs share at least one non-root node.",
        "C11" => "a pass over a graph with user closures in which some node has >= 2 tracked in-graph consumers.",
        "C13" => "an update over >= 3 parameters of >= 2 distinct shapes with a frozen parameter that is not the last one.",
        "C19" => "(f32 build) the history contains a pass over a graph with non-integer data, or an optimizer update / training iteration.",
        "C14" => "a training history with >= 3 strict forward/backward/update iterations over >= 2 layers and at least one batch-shape change or retained old output.",
        "C18" => "the retired leaf had been an operand of a differentiated graph and a gradient from that pass was still stored or held when it was probed.",
        _ => "the history contains at least one pass.",
    };
    format!("{}{}", common, r)
}

fn assumptions(prop: &str) -> Vec<String> {
    let mut v = vec![
        "sampling, not proof: a clean batch is evidence over the explored histories only".to_string(),
        "the reference interpreter (naive index loops + dual numbers) and the shadow graph are trusted".to_string(),
        "BLAS feature set not built; panics thrown by user closures mid-pass are outside every property".to_string(),
        "array sizes <= 48 elements, rank <= 4".to_string(),
    ];
    if prop == "C01" || prop == "C03" {
        v.push("forward results that do not conform to the reference (C04-C07, not decided by this family) are discarded and counted, gradients are judged on conforming nodes only".to_string());
    }
    v
}

pub fn cli(args: &[String]) -> i32 {
    match args.first().map(|s| s.as_str()) {
        Some("check") => {
            if args.len() < 3 {
                eprintln!("usage: corgisim check <ID> quick|thorough");
                return 2;
            }
            check(&args[1], &args[2])
        }
        Some("replay") => replay_file(&args[1]),
        Some("c19-worker") => crate::c19::worker(),
        Some("trace") => {
            // corgisim trace <profile> <base seed> <run index> [label-prop]
            let pname = &args[1];
            let base: u64 = args[2].parse().unwrap();
            let idx: u64 = args[3].parse().unwrap();
            let prop = args.get(4).cloned().unwrap_or_else(|| pname.clone());
            let seed = derive(base, &format!("{}/{}", prop, pname), idx);
            let out = run_generated(pname, seed);
            for (i, (e, a)) in out.trace.iter().zip(&out.actors).enumerate() {
                println!("t{:<3} [{}] {}", i, a, ev_compact(e));
            }
            for v in &out.sim.violations {
                println!("VIOL {} {} @{} [{}] {}", v.prop, v.monitor, v.event, v.class, v.detail);
            }
            println!("digest {:016x} regime {}", out.digest, regime_name(out.regime));
            0
        }
        Some("digests") => {
            // corgisim digests <prop> <n>: one line per run, for the determinism self-test
            let prop = &args[1];
            let n: u64 = args[2].parse().unwrap();
            let base: u64 = std::env::var("VERIF_SEED").ok().and_then(|s| s.parse().ok()).unwrap_or(1);
            let plan = Plan { prop: prop.clone(), tier: "quick".into(), seed: base, mix: vec![(prop.clone(), n)] };
            let (agg, _) = run_batch(&plan, 1e9);
            println!("{} runs {} digest {:016x}{:016x} nontrivial {} states {} viol {}", prop, agg.runs, agg.digest_xor, agg.digest_sum, agg.nontrivial.len(), agg.states.len(), agg.viols.len());
            0
        }
        _ => {
            eprintln!("usage: corgisim check <ID> quick|thorough | replay <file> | trace <profile> <seed> <idx> | digests <prop> <n>");
            2
        }
    }
}

/// C19 as run by the f64 binary: native f32 batch in the f32 binary + cross-build comparison.
pub fn check_c19_parent(tier: &str) -> i32 {
    let seed: u64 = std::env::var("VERIF_SEED").ok().and_then(|s| s.parse().ok()).unwrap_or(1);
    let start = Instant::now();
    let exe = format!("{}/sim/target-f32/release/corgisim", verif_root());
    if !std::path::Path::new(&exe).exists() {
        eprintln!("harness error: the f32 simulator binary {} is missing (bin/check builds it)", exe);
        return 2;
    }
    println!("corgisim check C19 tier={} seed={} : (a) native f32 batch", tier, seed);
    let native = std::process::Command::new(&exe).args(["check", "C19", tier]).output();
    let native = match native {
        Ok(o) => o,
        Err(e) => {
            eprintln!("harness error: cannot run the f32 binary: {}", e);
            return 2;
        }
    };
    let nout = String::from_utf8_lossy(&native.stdout).to_string();
    for l in nout.lines() {
        if l.starts_with("VIOLATION") || l.starts_with("KNOWN-FINDING") || l.starts_with("violation") || l.starts_with("C19 ") {
            println!("{}", l);
        }
    }
    let ncode = native.status.code().unwrap_or(2);
    if ncode != 0 && ncode != 1 {
        eprintln!("{}", String::from_utf8_lossy(&native.stderr));
        eprintln!("harness error: the f32 native batch exited with {:?}", native.status.code());
        return 2;
    }
    let nev: serde_json::Value = std::fs::read_to_string(format!("{}/work/C19.native-f32.json", verif_root())).ok().and_then(|s| serde_json::from_str(&s).ok()).unwrap_or(json!({}));

    println!("corgisim check C19: (b) cross-build comparison of integer-data histories");
    let nruns: u64 = if tier == "thorough" { 1_500_000 } else { 80_000 };
    let scale = std::env::var("VERIF_RUNS_SCALE").ok().and_then(|s| s.parse::<f64>().ok()).unwrap_or(1.0);
    let cross = crate::c19::cross(seed, ((nruns as f64) * scale) as u64, if tier == "thorough" { 900.0 } else { 120.0 });
    if cross.harness_errors > 0 {
        eprintln!("harness error: {} f32 worker failures", cross.harness_errors);
        return 2;
    }
    let mut exit = if ncode == 1 { 1 } else { 0 };
    let kf = load_findings();
    let mut nviol = 0;
    if let Some((pname, idx, rseed, trace, diff)) = cross.mismatches.first() {
        let structural = pname.ends_with("~smooth");
        let v = Violation { prop: "C19", monitor: if structural { "cross_build_structure" } else { "cross_build_int" }, class: "f64 and f32 builds disagree on an integer-data history".into(), event: 0, detail: diff.clone(), extra: serde_json::Value::Null };
        if let Some(k) = match_finding(&kf, &v) {
            println!("KNOWN-FINDING: property=C19 {} [{}]", k.what, k.id);
        } else {
            // minimise: the difference must persist
            let judge = |evs: &[Ev]| -> Vec<Violation> {
                match crate::c19::cross_replay_mode(evs, structural) {
                    Ok(Some(d)) => vec![Violation { prop: "C19", monitor: if structural { "cross_build_structure" } else { "cross_build_int" }, class: "f64 and f32 builds disagree on an integer-data history".into(), event: 0, detail: d, extra: serde_json::Value::Null }],
                    _ => vec![],
                }
            };
            let min = ddmin(&judge, trace, "C19", if structural { "cross_build_structure" } else { "cross_build_int" }, &kf, None, false);
            let mv = judge(&min).into_iter().next().unwrap_or(v.clone());
            let path = write_replay("C19", pname, *idx, *rseed, seed, Regime::Int, &min, &mv, "-cross");
            println!("violation [cross_build_int x{}] {}", cross.mismatches.len(), mv.detail);
            println!("VIOLATION property=C19 replay={}", path);
            exit = 1;
            nviol += cross.mismatches.len();
        }
    }
    let wall = start.elapsed().as_secs_f64();
    let ncov = nev.get("coverage").cloned().unwrap_or(json!({}));
    let mut samples: Vec<serde_json::Value> = ncov.get("samples").and_then(|s| s.as_array().cloned()).unwrap_or_default();
    if let Some(s) = &cross.sample {
        samples.push(s.clone());
    }
    let n_eval = ncov.get("evaluations").and_then(|x| x.as_u64()).unwrap_or(0);
    let n_nt = ncov.get("distinct_nontrivial").and_then(|x| x.as_u64()).unwrap_or(0);
    let ev = json!({
        "property_id": "C19",
        "tier": tier,
        "seed": seed,
        "level": "exploration",
        "wall_s": wall,
        "violations": nviol as u64 + nev.get("violations").and_then(|x| x.as_u64()).unwrap_or(0),
        "coverage": {
            "evaluations": n_eval + cross.runs,
            "distinct_nontrivial": n_nt,
            "rule": format!("{} Cross-build half: integer-data histories (integer coefficients and learning rates, every partial sum <= 2^24) executed by both binaries; every event status, shape, value, gradient and ownership probe must be identical.", ncov.get("rule").and_then(|x| x.as_str()).unwrap_or("")),
            "samples": samples,
            "native_f32": ncov,
            "cross_build": {
                "histories": cross.runs,
                "histories_with_a_pass": cross.nontrivial,
                "events_compared": cross.compared_events,
                "observations_compared": cross.compared_observations,
                "mismatching_histories": cross.mismatches.len(),
                "structural_histories_non_integer_data": cross.structural_runs,
                "structural_histories_diverged_by_a_harness_guard": cross.structural_diverged_by_guard,
            },
            "runs_per_hour": if wall > 0.0 { ((n_eval + cross.runs) as f64 / wall * 3600.0) as u64 } else { 0 },
            "components": {"real": "corgi built with --features f32 (native half and cross-build half) and with default features (cross-build half)", "not_run": "blas feature set; the input spaces of C04-C07 under f32 (not applicable to this family)"},
        },
        "assumptions": ["sampling, not proof", "restricted to the histories of the claimed properties; per-operation value kernels under f32 (C04-C07) are not decided by this family", "non-integer data is judged on the f32 build natively with the f32-scaled tolerance K*eps32*Mag (K = 1e4); cross-build equality is demanded on integer data only"],
    });
    let path = format!("{}/evidence/C19.json", verif_root());
    if let Err(e) = std::fs::write(&path, serde_json::to_string_pretty(&ev).unwrap()) {
        eprintln!("harness error: cannot write evidence {}: {}", path, e);
        return 2;
    }
    println!("C19 {}: native f32 runs {}, cross-build histories {} ({} observations), {:.1}s, exit {}", tier, n_eval, cross.runs, cross.compared_observations, wall, exit);
    exit
}

/// C11: every DAG of up to `n` user-operation nodes over one leaf (operands with repetition, arity
/// 1..=3), with a pass from every node; judged by the ordinary monitors. Returns the number of
/// (DAG, root) schedules executed. Violations are filed under the pseudo-profile "small-dag".
pub fn enumerate_small_dags(agg: &mut Agg, n: usize) -> u64 {
    let total: u64 = (1..=n).map(crate::relational::small_dag_count).sum();
    let nw = workers() as u64;
    let results: Arc<Mutex<(u64, Vec<(String, u64, u64, Violation)>)>> = Arc::new(Mutex::new((0, Vec::new())));
    let mut hs = Vec::new();
    for w in 0..nw {
        let results = results.clone();
        hs.push(
            std::thread::Builder::new()
                .stack_size(256 << 20)
                .spawn(move || {
                    let mut count = 0u64;
                    let mut viols = Vec::new();
                    let mut flat = 0u64;
                    for size in 1..=n {
                        let cnt = crate::relational::small_dag_count(size);
                        for idx in 0..cnt {
                            flat += 1;
                            if flat % nw != w {
                                continue;
                            }
                            let base = match crate::relational::small_dag(size, idx) {
                                Some(b) => b,
                                None => continue,
                            };
                            for root in 1..=size {
                                let mut evs = base.clone();
                                evs.push(Ev::Pass { root, seed: Seed::Vals(vec![1.0, 3.0]), via_clone: false });
                                count += 1;
                                let sim = run_trace(&evs, Regime::Int, true);
                                for v in &sim.violations {
                                    if v.prop == "C11" && viols.len() < 4 {
                                        let mut x = v.clone();
                                        x.extra = json!({ "trace": evs });
                                        viols.push(("C11".to_string(), flat, 0u64, x));
                                    }
                                }
                            }
                        }
                    }
                    let mut r = results.lock().unwrap();
                    r.0 += count;
                    r.1.extend(viols);
                })
                .unwrap(),
        );
    }
    for h in hs {
        h.join().unwrap();
    }
    let r = Arc::try_unwrap(results).ok().unwrap().into_inner().unwrap();
    let _ = total;
    agg.viols.extend(r.1);
    agg.runs += r.0;
    *agg.probes.entry("exhaustive_small_dag_schedules".into()).or_insert(0) += r.0;
    r.0
}
