//! Training-loop spans (C14): real `Dense`/`Conv` layers, `Model`, `GradientDescent` and cost
//! closures live on the stack of a span while the span keeps pulling events from the source, so
//! other actors' calls interleave with `forward` / `backward` / `update` at call granularity.
//! Layers are wrapped in a `Tap` (through the public `Layer` trait) that snapshots the parameter
//! handles at every `forward`.

use crate::event::*;
use crate::refmodel::{eval, numel, Dual, Scalar};
use crate::shadow::{Explicit, HInfo};
use crate::sim::{eps, tol_k, Held, Obs, Sim, StepOut};
use crate::world::{mk, to_f64};
use corgi::activation::{self, Activation};
use corgi::array::Array;
use corgi::cost::{self, CostFunction};
use corgi::initializer::Initializer;
use corgi::layer::conv::Conv;
use corgi::layer::dense::Dense;
use corgi::layer::Layer;
use corgi::model::Model;
use corgi::numbers::Float;
use corgi::optimizer::gd::GradientDescent;
use std::cell::RefCell;
use std::collections::VecDeque;
use std::panic::{catch_unwind, AssertUnwindSafe};
use std::rc::Rc;

pub trait Source {
    fn next(&mut self, sim: &Sim) -> Option<Ev>;
    /// true when the source may contain `NewWorld` markers (an explicit list): a dead world then
    /// only skips to the next marker instead of ending the execution
    fn may_restart(&self) -> bool {
        false
    }
}

pub struct ListSource<'a> {
    pub evs: &'a [Ev],
    pub i: usize,
}

impl<'a> Source for ListSource<'a> {
    fn next(&mut self, _sim: &Sim) -> Option<Ev> {
        let e = self.evs.get(self.i).cloned();
        self.i += 1;
        e
    }
    fn may_restart(&self) -> bool {
        true
    }
}

/// Wraps a real layer; records clones of its parameter handles at every forward.
struct Tap<'a> {
    inner: RefCell<Box<dyn Layer + 'a>>,
    snaps: Rc<RefCell<Vec<Vec<Array>>>>,
    index: usize,
}

impl<'a> Layer for Tap<'a> {
    fn forward(&self, input: Array) -> Array {
        {
            let mut l = self.inner.borrow_mut();
            let ps: Vec<Array> = l.parameters().iter().map(|p| (**p).clone()).collect();
            let mut s = self.snaps.borrow_mut();
            while s.len() <= self.index {
                s.push(Vec::new());
            }
            s[self.index] = ps;
        }
        self.inner.borrow().forward(input)
    }
    fn parameters(&mut self) -> Vec<&mut Array> {
        self.inner.get_mut().parameters()
    }
}

fn activation_of(a: Act) -> Option<Activation> {
    match a {
        Act::None => None,
        Act::Relu => Some(activation::relu()),
        Act::Sigmoid => Some(activation::sigmoid()),
        Act::Softmax => Some(activation::softmax()),
    }
}

fn act_op(a: Act) -> Option<Op> {
    match a {
        Act::None => None,
        Act::Relu => Some(Op::Relu),
        Act::Sigmoid => Some(Op::Sigmoid),
        Act::Softmax => Some(Op::Softmax),
    }
}

fn feeding_initializer(vals: Vec<f64>) -> Initializer {
    let q = Rc::new(RefCell::new(VecDeque::from(vals)));
    Box::new(move |_| q.borrow_mut().pop_front().unwrap_or(0.0) as Float)
}

fn spec_act(l: &LayerSpec) -> Act {
    match l {
        LayerSpec::Dense { act, .. } | LayerSpec::Conv { act, .. } => *act,
    }
}

pub fn spec_valid(layers: &[LayerSpec]) -> bool {
    !layers.is_empty()
        && layers.iter().all(|l| match l {
            LayerSpec::Dense { inp, out, w, b, .. } => *inp >= 1 && *out >= 1 && w.len() == inp * out && b.len() == *out,
            LayerSpec::Conv { count, depth, fr, fc, sr, sc, w, b, .. } => *count >= 1 && *depth >= 1 && *fr >= 1 && *fc >= 1 && *sr >= 1 && *sc >= 1 && w.len() == count * depth * fr * fc && b.len() == *count,
        })
}

/// Parameter values per layer: (dims, values) for weights/filters and biases.
pub type Params = Vec<[(Vec<usize>, Vec<f64>); 2]>;

fn spec_params(layers: &[LayerSpec]) -> Params {
    layers
        .iter()
        .map(|l| match l {
            LayerSpec::Dense { inp, out, w, b, .. } => [(vec![*out, *inp], w.clone()), (vec![*out], b.clone())],
            LayerSpec::Conv { count, depth, fr, fc, w, b, .. } => [(vec![*count, *depth, *fr, *fc], w.clone()), (vec![*count, 1, 1], b.clone())],
        })
        .collect()
}

/// Reference forward + loss from the documented formulas, generic over the scalar.
/// Returns (output dims, output values, loss) or None when the input is not admitted.
fn ref_forward<S: Scalar>(layers: &[LayerSpec], params: &[[(Vec<usize>, Vec<S>); 2]], x: (&[usize], &[S]), relu_margin: &mut f64) -> Option<(Vec<usize>, Vec<S>)> {
    let mut dims = x.0.to_vec();
    let mut vals = x.1.to_vec();
    for (l, p) in layers.iter().zip(params) {
        let (op, args): (Op, Vec<(&[usize], &[S])>) = match l {
            LayerSpec::Dense { .. } => (Op::Matmul { ta: false, tb: true }, vec![(&dims[..], &vals[..]), (&p[0].0[..], &p[0].1[..]), (&p[1].0[..], &p[1].1[..])]),
            LayerSpec::Conv { sr, sc, .. } => (Op::Conv { sr: *sr, sc: *sc }, vec![(&dims[..], &vals[..]), (&p[0].0[..], &p[0].1[..])]),
        };
        let ad: Vec<&[usize]> = args.iter().map(|a| a.0).collect();
        let od = crate::refmodel::out_dims(&op, &ad)?;
        let mut v = eval::<S>(&op, &args);
        let mut d = od;
        if let LayerSpec::Conv { .. } = l {
            let args2: Vec<(&[usize], &[S])> = vec![(&d[..], &v[..]), (&p[1].0[..], &p[1].1[..])];
            let ad2: Vec<&[usize]> = args2.iter().map(|a| a.0).collect();
            let od2 = crate::refmodel::out_dims(&Op::Add, &ad2)?;
            let v2 = eval::<S>(&Op::Add, &args2);
            v = v2;
            d = od2;
        }
        if let Some(aop) = act_op(spec_act(l)) {
            if matches!(aop, Op::Relu) {
                for z in &v {
                    *relu_margin = relu_margin.min(z.val().abs());
                }
            }
            if matches!(aop, Op::Sigmoid | Op::Softmax) && v.iter().any(|z| z.val().abs() > 30.0) {
                // exponentials out of the range both float widths handle: not judged (treated like the kink)
                *relu_margin = 0.0;
            }
            v = eval::<S>(&aop, &[(&d[..], &v[..])]);
        }
        dims = d;
        vals = v;
    }
    Some((dims, vals))
}

/// The documented cost formulas; target and output are combined with right-aligned broadcasting
/// (the usual case: equal shapes; also one target row for a batch, or a flat target against a
/// column output, which gives an outer difference).
fn ref_loss<S: Scalar>(cost: CostKind, out: (&[usize], &[S]), target: (&[usize], &[f64])) -> S {
    let rd = match crate::refmodel::broadcast_dims(out.0, target.0) {
        Some(d) => d,
        None => return S::c(f64::NAN),
    };
    let n = numel(&rd);
    let mut s = S::c(0.0);
    let mut idx = vec![0usize; rd.len()];
    let at = |dims: &[usize], idx: &[usize]| -> usize {
        let off = idx.len() - dims.len();
        let mut t = 0;
        for (j, d) in dims.iter().enumerate() {
            t = t * d + if *d == 1 { 0 } else { idx[off + j] };
        }
        t
    };
    let len = out.1.len() as f64;
    let lead = out.0[0] as f64;
    for i in 0..n {
        let mut f = i;
        for k in (0..rd.len()).rev() {
            idx[k] = f % rd[k];
            f /= rd[k];
        }
        let o = out.1[at(out.0, &idx)];
        let t = target.1[at(target.0, &idx)];
        match cost {
            CostKind::Mse => {
                let d = S::c(t).sub(o);
                s = s.add(d.mul(d).scale(1.0 / len));
            }
            CostKind::CrossEntropy => {
                s = s.add(S::c(-t).mul(o.ln()).scale(1.0 / lead));
            }
        }
    }
    s
}

fn params_as<S: Scalar>(p: &Params) -> Vec<[(Vec<usize>, Vec<S>); 2]> {
    p.iter().map(|l| [(l[0].0.clone(), l[0].1.iter().map(|v| S::c(*v)).collect()), (l[1].0.clone(), l[1].1.iter().map(|v| S::c(*v)).collect())]).collect()
}

/// What the reference expects of one iteration.
pub struct RefIter {
    pub out_dims: Vec<usize>,
    pub out: Vec<f64>,
    pub loss: f64,
    pub loss_mag: f64,
    /// per layer, per parameter: (gradient, magnitude)
    pub grads: Vec<[(Vec<f64>, Vec<f64>); 2]>,
    pub relu_margin: f64,
    pub min_ln_arg: f64,
}

pub fn reference_iteration(layers: &[LayerSpec], cost: CostKind, params: &Params, x: (&[usize], &[f64]), target: (&[usize], &[f64])) -> Option<RefIter> {
    let mut margin = f64::INFINITY;
    let pf = params_as::<f64>(params);
    let (od, ov) = ref_forward::<f64>(layers, &pf, x, &mut margin)?;
    if crate::refmodel::broadcast_dims(target.0, &od).is_none() || numel(target.0) != target.1.len() {
        return None;
    }
    let loss = ref_loss::<f64>(cost, (&od, &ov), target);
    let min_ln_arg = if cost == CostKind::CrossEntropy { ov.iter().fold(f64::INFINITY, |a, b| a.min(*b)) } else { 1.0 };
    let xd: Vec<Dual> = x.1.iter().map(|v| Dual::c(*v)).collect();
    let mut grads = Vec::new();
    let mut loss_mag = 0.0f64;
    for li in 0..params.len() {
        let mut lg: Vec<(Vec<f64>, Vec<f64>)> = Vec::new();
        for pi in 0..2 {
            let n = params[li][pi].1.len();
            let mut g = vec![0.0; n];
            let mut m = vec![0.0; n];
            for e in 0..n {
                let mut pd = params_as::<Dual>(params);
                pd[li][pi].1[e] = Dual::var(params[li][pi].1[e]);
                let mut mg = f64::INFINITY;
                let (d, v) = ref_forward::<Dual>(layers, &pd, (x.0, &xd), &mut mg)?;
                let l = ref_loss::<Dual>(cost, (&d, &v), target);
                g[e] = l.d;
                m[e] = l.a;
                loss_mag = loss_mag.max(l.v.abs());
            }
            lg.push((g, m));
        }
        let b = lg.pop().unwrap();
        let a = lg.pop().unwrap();
        grads.push([a, b]);
    }
    Some(RefIter { out_dims: od, out: ov, loss, loss_mag, grads, relu_margin: margin, min_ln_arg })
}

#[derive(Clone, Copy, PartialEq, Debug)]
enum Phase {
    Idle,
    AfterFwd,
    AfterBwd,
}

struct Pending {
    iter: u64,
    event: usize,
    /// expected parameters after the update: absolute (value, tolerance) per layer/param, if judged
    abs: Option<Vec<[(Vec<f64>, Vec<f64>); 2]>>,
    /// parameters after the same iteration on a fresh model restarted from the snapshot (bitwise)
    restart: Option<Vec<[Obs; 2]>>,
    class: String,
    /// the update consumed gradients accumulated over several backward calls (then C10 is concerned too)
    accumulated: bool,
}

#[derive(Default, Clone, Debug)]
pub struct TrainStats {
    pub iterations: u64,
    pub judged_abs: u64,
    pub judged_restart: u64,
    pub kink_guard: u64,
    pub batch_changes: u64,
    pub kept_outputs: u64,
    pub sessions: u64,
    pub layers: usize,
    pub configs: Vec<String>,
}

struct TS {
    layers: Vec<LayerSpec>,
    cost: CostKind,
    lr: f64,
    phase: Phase,
    iter: u64,
    x: Option<(Vec<usize>, Vec<f64>)>,
    target: Option<Vec<f64>>,
    before: Option<Params>,
    before_handles_had_grad: bool,
    pending: Option<Pending>,
    last_batch_dims: Option<Vec<usize>>,
    after_update: bool,
    reference: Option<RefIter>,
    class: String,
    out_dims_real: Option<(Vec<usize>, Vec<f64>)>,
    loss_real: Option<f64>,
    target_dims: Option<Vec<usize>>,
    frozen: Vec<[bool; 2]>,
    eval_iter: u64,
    /// class of the current iteration (configuration plus input kind)
    iclass: String,
    /// the (input, target) pairs whose gradients have been accumulated since the last update
    pairs: Vec<(Vec<usize>, Vec<f64>, Vec<usize>, Vec<f64>)>,
    refs: Vec<Option<RefIter>>,
    losses: Vec<f64>,
    /// an evaluation forward after a backward: its input and real output (a further backward may follow)
    eval_x: Option<(Vec<usize>, Vec<f64>, Vec<usize>, Vec<f64>)>,
    /// the currently open Model object has run a forward (so `backward` has an output to work on)
    model_has_output: bool,
}

fn build_layers<'a>(specs: &[LayerSpec], params: &Params, acts: &'a [Option<Activation>]) -> Vec<Box<dyn Layer + 'a>> {
    let mut v: Vec<Box<dyn Layer + 'a>> = Vec::new();
    for (i, s) in specs.iter().enumerate() {
        let mut feed = params[i][0].1.clone();
        feed.extend(params[i][1].1.iter());
        let init = feeding_initializer(feed);
        match s {
            LayerSpec::Dense { inp, out, .. } => v.push(Box::new(Dense::new(*inp, *out, &init, acts[i].as_ref()))),
            LayerSpec::Conv { count, depth, fr, fc, sr, sc, act, .. } => v.push(Box::new(Conv::new((*count, *depth, *fr, *fc), (*sr, *sc), &init, activation_of(*act)))),
        }
    }
    v
}

fn cost_fn(c: CostKind) -> CostFunction {
    match c {
        CostKind::Mse => cost::mse(),
        CostKind::CrossEntropy => cost::cross_entropy(),
    }
}

/// One complete iteration (one or more forward/backward pairs, then update) on a brand-new model
/// whose parameters are set to `params` (F13).
fn restart_iteration(specs: &[LayerSpec], cost: CostKind, lr: f64, params: &Params, frozen: &[[bool; 2]], pairs: &[(Vec<usize>, Vec<f64>, Vec<usize>, Vec<f64>)]) -> Option<(Vec<f64>, Vec<[Obs; 2]>)> {
    let r = catch_unwind(AssertUnwindSafe(|| {
        let acts: Vec<Option<Activation>> = specs.iter().map(|s| activation_of(spec_act(s))).collect();
        let mut layers = build_layers(specs, params, &acts);
        for (l, f) in layers.iter_mut().zip(frozen) {
            let ps = l.parameters();
            for pi in 0..2 {
                if f[pi] {
                    ps[pi].stop_tracking();
                }
            }
        }
        let gd = GradientDescent::new(lr as Float);
        let cf = cost_fn(cost);
        let mut losses = Vec::new();
        {
            let refs: Vec<&mut dyn Layer> = layers.iter_mut().map(|l| &mut **l as &mut dyn Layer).collect();
            let mut model = Model::new(refs, &gd, &cf);
            for (xd, xv, td, tv) in pairs {
                let _ = model.forward(mk(xd, xv));
                losses.push(model.backward(mk(td, tv)) as f64);
            }
            model.update();
        }
        let after: Vec<[Obs; 2]> = layers
            .iter_mut()
            .map(|l| {
                let p = l.parameters();
                [Obs::of(p[0]), Obs::of(p[1])]
            })
            .collect();
        (losses, after)
    }));
    r.ok()
}

fn frozen_flags(handles: &[Vec<Array>]) -> Vec<[bool; 2]> {
    handles.iter().map(|l| [!crate::world::read_flag(&l[0]), !crate::world::read_flag(&l[1])]).collect()
}

fn obs_params(handles: &[Vec<Array>]) -> (Params, Vec<[Obs; 2]>, bool) {
    let mut p = Vec::new();
    let mut o = Vec::new();
    let mut any_grad = false;
    for l in handles {
        p.push([(l[0].dimensions().to_vec(), to_f64(l[0].values())), (l[1].dimensions().to_vec(), to_f64(l[1].values()))]);
        o.push([Obs::of(&l[0]), Obs::of(&l[1])]);
        any_grad |= l[0].gradient().is_some() || l[1].gradient().is_some();
    }
    (p, o, any_grad)
}

impl Sim {
    fn tviol(&mut self, monitor: &'static str, class: &str, detail: String) {
        if self.cfg.monitors {
            self.violations.push(crate::sim::Violation { prop: "C14", monitor, class: class.to_string(), event: self.event_index, detail, extra: serde_json::Value::Null });
        }
    }

    /// Judges the pending update against the parameters now observed.
    fn judge_pending(&mut self, ts: &mut TS, now: &[[Obs; 2]], any_grad: bool) {
        if let Some(p) = ts.pending.take() {
            let nviol = self.violations.len();
            if any_grad {
                self.tviol("gradient_after_update", &p.class, format!("iteration {}: a parameter still holds a gradient after update", p.iter));
            }
            if let Some(rs) = &p.restart {
                self.train.judged_restart += 1;
                'outer: for (li, l) in rs.iter().enumerate() {
                    for pi in 0..2 {
                        if l[pi] != now[li][pi] {
                            self.tviol("restart_parameters", &p.class, format!("iteration {} (update at event {}): layer {} parameter {} is {:?} on the long-running model but {:?} when the same iteration runs on a fresh model restarted from the parameter snapshot", p.iter, p.event, li, pi, now[li][pi].vals(), l[pi].vals()));
                            break 'outer;
                        }
                    }
                }
            }
            if let Some(ab) = &p.abs {
                self.train.judged_abs += 1;
                'outer2: for (li, l) in ab.iter().enumerate() {
                    for pi in 0..2 {
                        let got = now[li][pi].vals();
                        let (want, tol) = &l[pi];
                        if got.len() != want.len() {
                            self.tviol("step_shape", &p.class, format!("iteration {}: layer {} parameter {} changed its element count", p.iter, li, pi));
                            break 'outer2;
                        }
                        for j in 0..got.len() {
                            let err = (got[j] - want[j]).abs();
                            if !(err <= tol[j]) {
                                self.tviol("step_value", &p.class, format!("iteration {} (update at event {}): layer {} parameter {} element {} is {} but old - lr * dLoss/dp is {} (|err| {} > tol {})", p.iter, p.event, li, pi, j, got[j], want[j], err, tol[j]));
                                break 'outer2;
                            }
                            let r = err / tol[j];
                            if r > self.cnt.max_err_over_tol {
                                self.cnt.max_err_over_tol = r;
                            }
                        }
                    }
                }
            }
            if p.accumulated {
                // gradients accumulated over several backward passes: additivity across passes is C10's statement too
                let extra: Vec<crate::sim::Violation> = self.violations[nviol..].iter().filter(|v| v.monitor == "step_value" || v.monitor == "restart_parameters").map(|v| {
                    let mut x = v.clone();
                    x.prop = "C10";
                    x
                }).collect();
                self.violations.extend(extra);
            }
        }
    }
}

fn begin(sim: &mut Sim, ev: &Ev) {
    sim.digest.str(ev.kind());
}

fn end(sim: &mut Sim, out: &StepOut) {
    sim.status_log.push(crate::sim::status_code(out));
    match out {
        StepOut::Done => sim.cnt.executed += 1,
        StepOut::Skipped(_) => sim.cnt.skipped += 1,
        StepOut::Dead => {}
    }
    sim.digest.u64(match out {
        StepOut::Done => 1,
        StepOut::Skipped(_) => 2,
        StepOut::Dead => 3,
    });
    sim.event_index += 1;
}

fn skip(sim: &mut Sim, ev: &Ev, why: &'static str) {
    begin(sim, ev);
    end(sim, &StepOut::Skipped(why));
}

/// Top-level driver: pulls events until the source is exhausted or the world is dead.
pub fn drive(sim: &mut Sim, src: &mut dyn Source, rec: &mut Vec<Ev>) {
    loop {
        if sim.dead && !src.may_restart() {
            break;
        }
        let ev = match src.next(sim) {
            Some(e) => e,
            None => break,
        };
        rec.push(ev.clone());
        if sim.dead && !matches!(ev, Ev::NewWorld { .. }) {
            // the world died (a pass panicked): skip until the next world starts
            sim.status_log.push(3);
            sim.event_index += 1;
            continue;
        }
        match &ev {
            Ev::NewWorld { smooth } => {
                let mut cfg = sim.cfg.clone();
                cfg.regime = if *smooth { crate::sim::Regime::Smooth } else { crate::sim::Regime::Int };
                let old = std::mem::replace(sim, Sim::new(cfg));
                sim.violations = old.violations;
                sim.event_index = old.event_index + 1;
                sim.status_log = old.status_log;
                sim.status_log.push(1);
            }
            Ev::TrainOpen { layers, cost, lr, opt } => {
                if !spec_valid(layers) || !lr.is_finite() {
                    skip(sim, &ev, "invalid layer specification");
                    continue;
                }
                begin(sim, &ev);
                end(sim, &StepOut::Done);
                train_span(sim, src, rec, layers, *cost, *lr, *opt);
            }
            Ev::ModelOpen | Ev::Fwd { .. } | Ev::Bwd { .. } | Ev::Upd | Ev::ModelClose | Ev::TrainClose | Ev::TakeParams { .. } | Ev::Freeze { .. } => skip(sim, &ev, "training event outside a training span"),
            _ => {
                sim.step(&ev);
            }
        }
    }
}

fn train_span(sim: &mut Sim, src: &mut dyn Source, rec: &mut Vec<Ev>, specs: &[LayerSpec], cost: CostKind, lr: f64, opt: Option<usize>) {
    let acts: Vec<Option<Activation>> = specs.iter().map(|s| activation_of(spec_act(s))).collect();
    let params0 = spec_params(specs);
    let built = catch_unwind(AssertUnwindSafe(|| build_layers(specs, &params0, &acts)));
    let inner = match built {
        Ok(l) => l,
        Err(_) => return,
    };
    let snaps: Rc<RefCell<Vec<Vec<Array>>>> = Rc::new(RefCell::new(Vec::new()));
    let mut taps: Vec<Tap> = inner.into_iter().enumerate().map(|(i, l)| Tap { inner: RefCell::new(l), snaps: snaps.clone(), index: i }).collect();
    // a persistent optimizer object may be shared with earlier training spans and with the optimizer actor
    let (gd_rc, lr): (Rc<GradientDescent>, f64) = match opt {
        None => (Rc::new(GradientDescent::new(lr as Float)), lr),
        Some(id) => {
            let e = sim.optimizers.entry(id).or_insert_with(|| (Rc::new(GradientDescent::new(lr as Float)), lr));
            (e.0.clone(), e.1)
        }
    };
    if opt.is_some() {
        sim.fault("F9_persistent_optimizer_object");
    }
    sim.train_opt_in_use = opt;
    let gd: &GradientDescent = &gd_rc;
    let cf = cost_fn(cost);
    let class = format!(
        "{}|{:?}",
        specs
            .iter()
            .map(|s| match s {
                LayerSpec::Dense { act, .. } => format!("dense-{:?}", act),
                LayerSpec::Conv { act, .. } => format!("conv-{:?}", act),
            })
            .collect::<Vec<_>>()
            .join("+"),
        cost
    );
    sim.train.layers = sim.train.layers.max(specs.len());
    if !sim.train.configs.contains(&class) {
        sim.train.configs.push(class.clone());
    }
    sim.train_phase = 1;
    sim.train_first_layer = Some(specs[0].clone());
    sim.train_param_count = specs.len() * 2;
    sim.train_layer_count = specs.len();
    let mut ts = TS { layers: specs.to_vec(), cost, lr, phase: Phase::Idle, iter: 0, x: None, target: None, before: None, before_handles_had_grad: false, pending: None, last_batch_dims: None, after_update: false, reference: None, class, out_dims_real: None, loss_real: None, target_dims: None, frozen: Vec::new(), eval_iter: 0, iclass: String::new(), pairs: Vec::new(), refs: Vec::new(), losses: Vec::new(), eval_x: None, model_has_output: false };
    while !sim.dead {
        let ev = match src.next(sim) {
            Some(e) => e,
            None => break,
        };
        rec.push(ev.clone());
        match &ev {
            Ev::ModelOpen => {
                begin(sim, &ev);
                end(sim, &StepOut::Done);
                sim.train.sessions += 1;
                sim.train_phase = if ts.phase == Phase::AfterBwd { 4 } else { 2 };
                if ts.phase == Phase::AfterBwd {
                    sim.fault("F12_model_rebuilt_between_backward_and_update");
                }
                let close_all;
                {
                    let refs: Vec<&mut dyn Layer> = taps.iter_mut().map(|t| t as &mut dyn Layer).collect();
                    let mut model = Model::new(refs, gd, &cf);
                    close_all = model_span(sim, src, rec, &mut model, &mut ts, &snaps);
                }
                // the model is gone: the layers can be read directly
                let handles: Vec<Vec<Array>> = taps.iter_mut().map(|t| t.parameters().iter().map(|p| (**p).clone()).collect()).collect();
                let (_, now, any_grad) = obs_params(&handles);
                let ag = any_grad && ts.after_update;
                sim.judge_pending(&mut ts, &now, ag);
                // gradients deposited by backward live on the layers' parameters: a model rebuilt around the
                // same layers may still update with them; an un-differentiated output is lost with the model
                if ts.phase != Phase::AfterBwd {
                    ts.phase = Phase::Idle;
                }
                ts.model_has_output = false;
                ts.eval_x = None;
                sim.train_eval_pending = false;
                sim.model_output_iter = None;
                sim.train_phase = 1;
                if close_all {
                    break;
                }
            }
            Ev::TakeParams { dst } => {
                begin(sim, &ev);
                let handles: Vec<Array> = taps.iter_mut().flat_map(|t| t.parameters().iter().map(|p| (**p).clone()).collect::<Vec<_>>()).collect();
                for (h, d) in handles.into_iter().zip(dst) {
                    // read-only with respect to parameter gradients: the observer's clone is untracked
                    h.stop_tracking();
                    let vals = to_f64(h.values());
                    let node = sim.new_leaf_node(h.dimensions(), &vals, "parameter handle taken by an observer");
                    sim.protected.insert(node);
                    sim.put(*d, h, HInfo { node, tracked: false, keep: true, explicit: Explicit::No });
                }
                sim.fault("F10_parameter_handle_taken");
                end(sim, &StepOut::Done);
            }
            Ev::Freeze { layer, param, on } => {
                if *layer >= taps.len() || *param >= 2 || ts.phase == Phase::AfterBwd {
                    // (not between a backward and its update: the iteration would no longer be the one that was started)
                    skip(sim, &ev, "no such parameter, or an iteration is in flight");
                    continue;
                }
                begin(sim, &ev);
                {
                    let ps = taps[*layer].parameters();
                    if *on {
                        ps[*param].stop_tracking();
                    } else {
                        ps[*param].start_tracking();
                    }
                }
                sim.fault("F9_parameter_frozen_in_model");
                end(sim, &StepOut::Done);
            }
            Ev::TrainClose => {
                begin(sim, &ev);
                end(sim, &StepOut::Done);
                break;
            }
            Ev::TrainOpen { .. } | Ev::Fwd { .. } | Ev::Bwd { .. } | Ev::Upd | Ev::ModelClose => skip(sim, &ev, "not legal in this training phase"),
            _ => {
                sim.step(&ev);
            }
        }
    }
    sim.train_phase = 0;
    sim.train_first_layer = None;
    sim.train_opt_in_use = None;
    sim.model_output_iter = None;
}

/// Returns true when the whole training span must close.
fn model_span(sim: &mut Sim, src: &mut dyn Source, rec: &mut Vec<Ev>, model: &mut Model, ts: &mut TS, snaps: &Rc<RefCell<Vec<Vec<Array>>>>) -> bool {
    while !sim.dead {
        let ev = match src.next(sim) {
            Some(e) => e,
            None => return true,
        };
        rec.push(ev.clone());
        match &ev {
            Ev::Fwd { dims, vals, keep_output, twice, input_slot } => {
                if dims.is_empty() || dims.iter().any(|d| *d == 0) || numel(dims) != vals.len() {
                    skip(sim, &ev, "forward not legal here");
                    continue;
                }
                // admissibility by the reference (shape only)
                let p0 = spec_params(&ts.layers);
                let mut mg = f64::INFINITY;
                if ref_forward::<f64>(&ts.layers, &params_as::<f64>(&p0), (dims, vals), &mut mg).is_none() {
                    skip(sim, &ev, "input shape not admitted by the layer stack");
                    continue;
                }
                if ts.phase == Phase::AfterBwd {
                    // an evaluation forward between backward and update: replaces the model's output,
                    // must not disturb the pending update
                    begin(sim, &ev);
                    let x = mk(dims, vals);
                    let r = catch_unwind(AssertUnwindSafe(|| model.forward(x)));
                    match r {
                        Ok(out) => {
                            ts.model_has_output = true;
                            ts.eval_x = Some((dims.clone(), to_f64(&crate::world::to_float(vals)), out.dimensions().to_vec(), to_f64(out.values())));
                            sim.train_out_dims = Some(out.dimensions().to_vec());
                            sim.train_eval_pending = true;
                            ts.eval_iter += 1;
                            sim.model_output_iter = Some(1_000_000 + ts.eval_iter);
                            if *keep_output {
                                let snap = Obs::of(&out);
                                sim.held.push(Held { arr: out.clone(), snap, what: "kept model output", node: None, tag: 1_000_000 + ts.eval_iter });
                            }
                            sim.fault("F12_evaluation_forward_between_backward_and_update");
                            end(sim, &StepOut::Done);
                        }
                        Err(_) => {
                            sim.tviol("forward_panicked", &ts.class.clone(), format!("Model::forward panicked on an admitted input {:?}: {}", dims, crate::last_panic()));
                            sim.dead = true;
                            end(sim, &StepOut::Dead);
                            return true;
                        }
                    }
                    continue;
                }
                begin(sim, &ev);
                let conv_batched = matches!(ts.layers[0], LayerSpec::Conv { .. }) && dims.len() >= 4;
                ts.iclass = format!("{}{}", ts.class, if conv_batched { "|batched-conv-input" } else { "" });
                if conv_batched {
                    sim.fault("F12_batched_conv_input");
                }
                let x = mk(dims, vals);
                let xv = to_f64(x.values());
                let mut input_node = None;
                if let Some(isl) = input_slot {
                    let node = sim.new_leaf_node(dims, &xv, "input batch handed to a model");
                    sim.put(*isl, x.clone(), HInfo { node, tracked: false, keep: false, explicit: Explicit::No });
                    input_node = Some(node);
                }
                let r = catch_unwind(AssertUnwindSafe(|| {
                    if *twice {
                        let _ = model.forward(x.clone());
                    }
                    model.forward(x)
                }));
                let out = match r {
                    Ok(o) => o,
                    Err(_) => {
                        sim.tviol("forward_panicked", &ts.iclass.clone(), format!("Model::forward panicked on an admitted input {:?}: {}", dims, crate::last_panic()));
                        sim.dead = true;
                        end(sim, &StepOut::Dead);
                        return true;
                    }
                };
                if *twice {
                    sim.fault("F12_forward_twice");
                }
                if ts.phase == Phase::AfterFwd {
                    sim.fault("F12_forward_replaces_output");
                }
                // parameters as seen by this forward
                let handles = snaps.borrow().clone();
                let (pb, now, any_grad) = obs_params(&handles);
                let ag = any_grad && ts.after_update;
                sim.judge_pending(ts, &now, ag);
                ts.after_update = false;
                if let Some(l) = &ts.last_batch_dims {
                    if l != dims {
                        sim.train.batch_changes += 1;
                        sim.fault("F12_batch_shape_change");
                    }
                }
                ts.last_batch_dims = Some(dims.clone());
                ts.iter += 1;
                ts.model_has_output = true;
                sim.model_output_iter = Some(ts.iter);
                if let Some(n) = input_node {
                    sim.model_pins.insert(n, ts.iter);
                }
                ts.frozen = frozen_flags(&handles);
                if ts.frozen.iter().any(|f| f[0] || f[1]) {
                    sim.fault("F9_iteration_with_frozen_parameter");
                }
                // reference output
                ts.before = Some(pb);
                ts.pairs.clear();
                ts.refs.clear();
                ts.losses.clear();
                ts.eval_x = None;
                sim.train_eval_pending = false;
                ts.before_handles_had_grad = any_grad;
                ts.x = Some((dims.clone(), xv));
                ts.target = None;
                if *keep_output {
                    let snap = Obs::of(&out);
                    sim.held.push(Held { arr: out.clone(), snap, what: "kept model output", node: None, tag: ts.iter });
                    sim.train.kept_outputs += 1;
                    sim.fault("F12_old_output_retained");
                }
                ts.out_dims_real = Some((out.dimensions().to_vec(), to_f64(out.values())));
                drop(out);
                ts.phase = Phase::AfterFwd;
                sim.train_phase = 3;
                sim.train_out_dims = ts.out_dims_real.as_ref().map(|o| o.0.clone());
                end(sim, &StepOut::Done);
            }
            Ev::Bwd { dims, vals, target_slot } => {
                // a backward follows a forward; after an evaluation forward it accumulates a further gradient
                let accumulating = ts.phase == Phase::AfterBwd && ts.eval_x.is_some();
                // a further backward on the same forward (another target for the same output)
                let again = ts.phase == Phase::AfterBwd && ts.eval_x.is_none() && ts.model_has_output;
                if accumulating {
                    let e = ts.eval_x.clone().unwrap();
                    ts.x = Some((e.0, e.1));
                    ts.out_dims_real = Some((e.2, e.3));
                }
                // the target has the output's shape or is broadcast against it (a target row for a whole batch)
                let ok = (ts.phase == Phase::AfterFwd || accumulating || again)
                    && numel(dims) == vals.len()
                    && ts.out_dims_real.as_ref().map(|o| crate::refmodel::broadcast_dims(dims, &o.0).map(|d| numel(&d) <= 256).unwrap_or(false)).unwrap_or(false);
                if !ok {
                    skip(sim, &ev, "backward not legal here");
                    continue;
                }
                if ts.out_dims_real.as_ref().map(|o| o.0 != *dims).unwrap_or(false) {
                    sim.fault("F12_target_broadcast_against_output");
                }
                if again {
                    sim.fault("F4_second_backward_on_the_same_forward");
                }
                if accumulating {
                    sim.fault("F4_gradient_accumulation_over_two_batches");
                    let xr = ts.x.as_ref().map(|x| x.0.len()).unwrap_or(0);
                    if matches!(ts.layers[0], LayerSpec::Conv { .. }) && xr >= 4 && !ts.iclass.contains("batched-conv-input") {
                        ts.iclass = format!("{}|batched-conv-input", ts.iclass);
                    }
                }
                ts.eval_x = None;
                sim.train_eval_pending = false;
                let (xd, xv) = ts.x.clone().unwrap();
                let before = ts.before.clone().unwrap();
                let tv = to_f64(&crate::world::to_float(vals));
                let reference = reference_iteration(&ts.layers, ts.cost, &before, (&xd, &xv), (dims, &tv));
                // domain guard for the cross-entropy logarithm: outputs must be comfortably positive
                if let Some(r) = &reference {
                    if r.min_ln_arg <= 1e-6 || !r.loss.is_finite() || r.loss.abs() > 1e6 || r.out.iter().any(|o| !o.is_finite()) {
                        skip(sim, &ev, "cost not defined on this output (domain guard)");
                        sim.cnt.domain_guard += 1;
                        continue;
                    }
                }
                begin(sim, &ev);
                let t = mk(dims, vals);
                if let Some(tsl) = target_slot {
                    // the caller keeps a handle of the target: once backward has returned nothing else may share it
                    let node = sim.new_leaf_node(dims, &tv, "target handed to a model");
                    sim.put(*tsl, t.clone(), HInfo { node, tracked: false, keep: false, explicit: Explicit::No });
                    sim.model_pins.insert(node, u64::MAX);
                }
                let r = catch_unwind(AssertUnwindSafe(|| model.backward(t)));
                let loss = match r {
                    Ok(l) => l as f64,
                    Err(_) => {
                        sim.tviol("backward_panicked", &ts.iclass.clone(), format!("Model::backward panicked: {}", crate::last_panic()));
                        sim.dead = true;
                        end(sim, &StepOut::Dead);
                        return true;
                    }
                };
                ts.loss_real = Some(loss);
                if let Some(rf) = &reference {
                    // forward output and loss of the current parameters on the current batch
                    let (od, ov) = ts.out_dims_real.clone().unwrap();
                    let scale = rf.out.iter().fold(1.0f64, |a, b| a.max(b.abs()));
                    let out_ok = od == rf.out_dims && ov.iter().zip(&rf.out).all(|(g, w)| (g - w).abs() <= tol_k() * eps() * 64.0 * scale);
                    let kink = rf.relu_margin < 1e-6;
                    if !kink {
                        if !out_ok {
                            sim.tviol("forward_value", &ts.iclass.clone(), format!("iteration {}: model output {:?} {:?} differs from the documented formulas on the current parameters {:?} {:?}", ts.iter, od, ov, rf.out_dims, rf.out));
                        } else {
                            let tol = tol_k() * eps() * 64.0 * (rf.loss.abs() + rf.loss_mag + 1.0);
                            if !((loss - rf.loss).abs() <= tol) {
                                sim.tviol("loss_value", &ts.iclass.clone(), format!("iteration {}: returned loss {} but the loss of the current parameters on the current batch is {}", ts.iter, loss, rf.loss));
                            }
                        }
                    }
                }
                ts.pairs.push((xd.clone(), xv.clone(), dims.clone(), tv.clone()));
                ts.refs.push(reference);
                ts.losses.push(loss);
                ts.target = Some(tv);
                ts.target_dims = Some(dims.clone());
                ts.phase = Phase::AfterBwd;
                sim.train_phase = 4;
                end(sim, &StepOut::Done);
            }
            Ev::Upd => {
                if ts.phase != Phase::AfterBwd {
                    skip(sim, &ev, "update not legal here");
                    continue;
                }
                begin(sim, &ev);
                let r = catch_unwind(AssertUnwindSafe(|| model.update()));
                if r.is_err() {
                    sim.tviol("update_panicked", &ts.iclass.clone(), format!("Model::update panicked: {}", crate::last_panic()));
                    sim.dead = true;
                    end(sim, &StepOut::Dead);
                    return true;
                }
                sim.train.iterations += 1;
                let before = ts.before.clone().unwrap();
                let accumulated = ts.pairs.len() >= 2;
                // relational: the same iteration on a fresh model restarted from the snapshot (F13)
                let restart = if sim.cfg.monitors { restart_iteration(&ts.layers, ts.cost, ts.lr, &before, &ts.frozen, &ts.pairs) } else { None };
                let mut restart_params = None;
                if let Some((rl, rp)) = restart {
                    sim.fault("F13_restart_from_snapshot");
                    let same = rl.len() == ts.losses.len() && rl.iter().zip(&ts.losses).all(|(a, b)| a.to_bits() == b.to_bits());
                    if !same {
                        sim.tviol("restart_loss", &ts.iclass.clone(), format!("iteration {}: losses {:?} on the long-running model, {:?} on a fresh model restarted from the parameter snapshot", ts.iter, ts.losses, rl));
                    }
                    restart_params = Some(rp);
                }
                // absolute: old - lr * (sum of the gradients of the reference losses since the last update)
                let mut abs = None;
                if !ts.refs.is_empty() && ts.refs.iter().all(|r| r.is_some()) {
                    let refs: Vec<&RefIter> = ts.refs.iter().map(|r| r.as_ref().unwrap()).collect();
                    if refs.iter().all(|rf| rf.relu_margin >= 1e-6) {
                        let lrf = (ts.lr as Float) as f64;
                        let mut v = Vec::new();
                        for (li, l) in before.iter().enumerate() {
                            let mut pair: Vec<(Vec<f64>, Vec<f64>)> = Vec::new();
                            for pi in 0..2 {
                                let n = l[pi].1.len();
                                let mut g = vec![0.0; n];
                                let mut m = vec![0.0; n];
                                for rf in &refs {
                                    for j in 0..n {
                                        g[j] += rf.grads[li][pi].0[j];
                                        m[j] += rf.grads[li][pi].1[j];
                                    }
                                }
                                let mmax = m.iter().fold(0.0f64, |a, b| a.max(*b));
                                let fr = ts.frozen.get(li).map(|f| f[pi]).unwrap_or(false);
                                let want: Vec<f64> = l[pi].1.iter().zip(&g).map(|(o, gg)| if fr { *o } else { o - lrf * gg }).collect();
                                let tol: Vec<f64> = l[pi].1.iter().zip(&m).map(|(o, mm)| if fr { 0.0 } else { tol_k() * eps() * (o.abs() + lrf.abs() * (mm + mmax + 1.0)) + 1e-300 }).collect();
                                pair.push((want, tol));
                            }
                            let b = pair.pop().unwrap();
                            let a = pair.pop().unwrap();
                            v.push([a, b]);
                        }
                        let sane = v.iter().all(|l| l.iter().all(|(w, t)| w.iter().all(|x| x.is_finite() && x.abs() < 1e6) && t.iter().all(|x| x.is_finite())));
                        if sane {
                            abs = Some(v);
                        } else {
                            sim.cnt.magnitude_guard += 1;
                        }
                    } else {
                        sim.train.kink_guard += 1;
                    }
                }
                if accumulated {
                    ts.iclass = format!("{}|accumulated-over-{}-backward-calls", ts.iclass, ts.pairs.len());
                }
                ts.pending = Some(Pending { iter: ts.iter, event: sim.event_index, abs, restart: restart_params, class: ts.iclass.clone(), accumulated });
                ts.after_update = true;
                ts.phase = Phase::Idle;
                sim.train_phase = 2;
                end(sim, &StepOut::Done);
            }
            Ev::ModelClose => {
                begin(sim, &ev);
                end(sim, &StepOut::Done);
                return false;
            }
            Ev::TrainClose => {
                begin(sim, &ev);
                end(sim, &StepOut::Done);
                return true;
            }
            Ev::TrainOpen { .. } | Ev::ModelOpen | Ev::TakeParams { .. } | Ev::Freeze { .. } => skip(sim, &ev, "not legal while a model session is open"),
            _ => {
                sim.step(&ev);
            }
        }
    }
    true
}
